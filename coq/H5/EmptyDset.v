(** hdf_utils.create_empty_dataset with sidpy copy_attributes / copy_linked_objects / copy_dataset as it uses them,
    over the members of the destination group.  Attribute keys and member names are ASCII strings. *)
From Coq Require Import List Arith Lia Bool Ascii.
Require Import V.Base.ListAux V.Base.CorrAux V.H5.Naming V.H5.IsMain.
Import ListNotations.

(** attribute values: plain value (string or not, identity), reference to an object of the SOURCE file (by id), reference
    to a member of the destination group (by name), region reference *)
Inductive aval := ASimple (is_str : bool) (v : nat) | ARef (t : nat) | ALocal (n : str) | ARegion.
Definition attrs := list (str * aval).

(** a dataset: layout, contents (0 = nothing written), labels / units of an ancillary (IsMain.attrd), attributes *)
Record dsobj := mkDs { o_shape : list nat; o_dtype : nat; o_chunks : list nat; o_compr : nat; o_content : nat;
                       o_labels : attrd; o_units : attrd; o_attrs : attrs }.
Inductive member := MGroup | MDset (o : dsobj).
Definition group := list (str * member).
(** objects of the source file that references can point to *)
Definition heap := list (nat * member).

Inductive eerr := ETypeE | EValueE | EKeyE | ENotImplE.
Inductive eres (A : Type) := EOk (a : A) | EErr (e : eerr).
Arguments EOk {A} a. Arguments EErr {A} e.

Fixpoint aget (k : str) (a : attrs) : option aval :=
  match a with [] => None | (k', v) :: a' => if str_eqb k' k then Some v else aget k a' end.
Fixpoint aset (k : str) (v : aval) (a : attrs) : attrs :=
  match a with
  | [] => [(k, v)]
  | (k', v') :: a' => if str_eqb k' k then (k, v) :: a' else (k', v') :: aset k v a'
  end.
Fixpoint mget (k : str) (g : group) : option member :=
  match g with [] => None | (k', m) :: g' => if str_eqb k' k then Some m else mget k g' end.
Fixpoint mset (k : str) (m : member) (g : group) : group :=
  match g with
  | [] => [(k, m)]
  | (k', m') :: g' => if str_eqb k' k then (k, m) :: g' else (k', m') :: mset k m g'
  end.
Definition mdel (k : str) (g : group) : group := filter (fun e => negb (str_eqb (fst e) k)) g.
Fixpoint hget (t : nat) (h : heap) : option member :=
  match h with [] => None | (t', m) :: h' => if Nat.eqb t' t then Some m else hget t h' end.

(** sidpy copy_attributes(source, dest, skip_refs): plain attributes always, object references unless skipped,
    region references never *)
Definition copy_attributes (src dst : attrs) (skip_refs : bool) : attrs :=
  fold_left (fun acc kv => match snd kv with
                           | ASimple s v => aset (fst kv) (ASimple s v) acc
                           | ARef t => if skip_refs then acc else aset (fst kv) (ARef t) acc
                           | ALocal n => if skip_refs then acc else aset (fst kv) (ALocal n) acc
                           | ARegion => acc
                           end) src dst.

(** sidpy copy_dataset(orig, group, alias) *)
Definition copy_dataset (o : dsobj) (g : group) (alias : str) : eres group :=
  match mget alias g with
  | None => EOk (g ++ [(alias, MDset (mkDs (o_shape o) (o_dtype o) (o_chunks o) (o_compr o) (o_content o) (o_labels o) (o_units o)
                                          (copy_attributes (o_attrs o) [] true)))])
  | Some MGroup => EErr ETypeE
  | Some (MDset e) =>
      if negb (nat_list_eqb (o_shape e) (o_shape o)) then EErr EValueE
      else if negb (Nat.eqb (o_content e) (o_content o)) then EErr EValueE
      else EOk (mset alias (MDset (mkDs (o_shape e) (o_dtype e) (o_chunks e) (o_compr e) (o_content e) (o_labels o) (o_units o)
                                        (copy_attributes (o_attrs o) (o_attrs e) true))) g)
  end.

(** sidpy copy_linked_objects(source, dest) when the files differ: every object reference of the source is copied into
    the destination group under the ATTRIBUTE's name and linked; returns the group and the destination's attributes *)
Fixpoint copy_linked (h : heap) (src : attrs) (g : group) (dst : attrs) : option eerr * group * attrs :=
  match src with
  | [] => (None, g, dst)
  | (k, ARef t) :: src' =>
      match hget t h with
      | None => (Some EValueE, g, dst)                          (* dangling reference *)
      | Some orig =>
          match mget k g, orig with
          | Some MGroup, MGroup => (Some EValueE, g, dst)
          | Some MGroup, MDset _ => (Some ETypeE, g, dst)
          | Some (MDset _), MGroup => (Some ETypeE, g, dst)
          | None, MGroup => (Some ENotImplE, g, dst)
          | _, MDset o =>
              match copy_dataset o g k with
              | EErr e => (Some e, g, dst)
              | EOk g1 => copy_linked h src' g1 (aset k (ALocal k) dst)
              end
          end
      end
  | _ :: src' => copy_linked h src' g dst
  end.

Definition apply_new (new dst : attrs) : attrs := fold_left (fun acc kv => aset (fst kv) (snd kv) acc) new dst.

(** descriptor of a dataset for check_if_main: links resolved in the source file (ARef) or the destination group (ALocal) *)
Definition anc_of_member (m : option member) : anc :=
  match m with
  | Some (MDset o) => mkAnc 4 (o_shape o) (o_labels o) (o_units o)
  | Some MGroup => mkAnc 3 [] (0, []) (0, [])
  | None => mkAnc 2 [] (0, []) (0, [])
  end.
Definition link_anc (h : heap) (g : group) (a : attrs) (k : str) : anc :=
  match aget k a with
  | None => mkAnc 0 [] (0, []) (0, [])
  | Some (ARef t) => anc_of_member (hget t h)
  | Some (ALocal n) => anc_of_member (mget n g)
  | Some _ => mkAnc 1 [] (0, []) (0, [])
  end.
Definition str_code (a : attrs) (k : str) : nat :=
  match aget k a with None => 0 | Some (ASimple true _) => 1 | Some _ => 2 end.

Definition k_pi : str := ["P";"o";"s";"i";"t";"i";"o";"n";"_";"I";"n";"d";"i";"c";"e";"s"]%char.
Definition k_pv : str := ["P";"o";"s";"i";"t";"i";"o";"n";"_";"V";"a";"l";"u";"e";"s"]%char.
Definition k_si : str := ["S";"p";"e";"c";"t";"r";"o";"s";"c";"o";"p";"i";"c";"_";"I";"n";"d";"i";"c";"e";"s"]%char.
Definition k_sv : str := ["S";"p";"e";"c";"t";"r";"o";"s";"c";"o";"p";"i";"c";"_";"V";"a";"l";"u";"e";"s"]%char.
Definition k_q : str := ["q";"u";"a";"n";"t";"i";"t";"y"]%char.
Definition k_u : str := ["u";"n";"i";"t";"s"]%char.

Definition desc_of (h : heap) (g : group) (o : dsobj) : desc :=
  mkDesc true (o_shape o) (str_code (o_attrs o) k_q) (str_code (o_attrs o) k_u)
         (link_anc h g (o_attrs o) k_pi) (link_anc h g (o_attrs o) k_pv) (link_anc h g (o_attrs o) k_si) (link_anc h g (o_attrs o) k_sv).

(** write_book_keeping_attrs: five volatile attributes (value identity 0 in the model) *)
Definition bk_keys : list str :=
  [ ["t";"i";"m";"e";"s";"t";"a";"m";"p"]; ["m";"a";"c";"h";"i";"n";"e";"_";"i";"d"]; ["p";"l";"a";"t";"f";"o";"r";"m"];
    ["p";"y";"U";"S";"I";"D";"_";"v";"e";"r";"s";"i";"o";"n"]; ["s";"i";"d";"p";"y";"_";"v";"e";"r";"s";"i";"o";"n"] ]%char.
Definition book_keeping (a : attrs) : attrs := fold_left (fun acc k => aset k (ASimple true 0) acc) bk_keys a.

Record req := mkReq {
  r_src_ok : bool;          (* source_dset is a h5py.Dataset *)
  r_src : dsobj;            (* the source dataset *)
  r_heap : heap;            (* objects of the source file *)
  r_dtype_ok : bool; r_dtype : nat;
  r_name : option str;      (* None: not a string *)
  r_name_empty : bool;
  r_grp_ok : bool;          (* h5_group is None or a group / file *)
  r_other_file : bool;      (* destination group lives in another file *)
  r_new_ok : bool; r_new : attrs;
  r_skip_refs : bool }.

Definition undash (s : str) : str := map (fun c => if Ascii.eqb c dash then us else c) s.

(** result: the dataset as stored under the returned name, whether it was made a USIDataset, and the group afterwards *)
Definition create_empty (g : group) (r : req) : eres (str * dsobj * bool) * group :=
  if negb (r_src_ok r) then (EErr ETypeE, g)
  else if negb (r_dtype_ok r) then (EErr ETypeE, g)
  else if negb (r_new_ok r) then (EErr ETypeE, g)
  else if negb (r_grp_ok r) then (EErr ETypeE, g)
  else
    let skip := r_skip_refs r || r_other_file r in
    match r_name r with
    | None => (EErr ETypeE, g)
    | Some nm0 =>
      if r_name_empty r then (EErr EValueE, g)
      else
        let nm := undash nm0 in
        let src := r_src r in
        let fresh := mkDs (o_shape src) (r_dtype r) (o_chunks src) (o_compr src) 0 (0, []) (0, []) [] in
        let start : eres (dsobj * group) :=
          match mget nm g with
          | Some (MDset e) =>
              if negb (nat_list_eqb (o_shape src) (o_shape e)) || negb (Nat.eqb (r_dtype r) (o_dtype e))
              then EOk (fresh, mdel nm g ++ [(nm, MDset fresh)])            (* deleted and created anew *)
              else EOk (e, g)                                               (* the existing one is returned *)
          | Some MGroup => EErr EKeyE
          | None => EOk (fresh, g ++ [(nm, MDset fresh)])
          end in
        match start with
        | EErr e => (EErr e, g)
        | EOk (d0, g0) =>
            let a1 := copy_attributes (o_attrs src) (o_attrs d0) skip in
            let with_attrs a := mkDs (o_shape d0) (o_dtype d0) (o_chunks d0) (o_compr d0) (o_content d0) (o_labels d0) (o_units d0) a in
            let linked : option eerr * group * attrs :=
              if r_other_file r then copy_linked (r_heap r) (o_attrs src) g0 a1 else (None, g0, a1) in
            match linked with
            | (Some e, g1, a2) => (EErr e, mset nm (MDset (with_attrs a2)) g1)   (* partial: dataset and earlier copies stay *)
            | (None, g1, a2) =>
                let a3 := apply_new (r_new r) a2 in
                let d3 := with_attrs a3 in
                let g3 := mset nm (MDset d3) g1 in
                if check_if_main (desc_of (r_heap r) g3 d3)
                then let d4 := with_attrs (book_keeping a3) in (EOk (nm, d4, true), mset nm (MDset d4) g1)
                else (EOk (nm, d3, false), g3)
            end
        end
    end.
