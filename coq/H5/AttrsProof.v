From Coq Require Import List Arith Lia Bool ZArith QArith Qabs Lqa.
Require Import V.H5.Attrs.
Import ListNotations.

Lemma close_refl a : close a a = true.
Proof.
  unfold close. apply Qle_bool_iff.
  assert (Qabs (a - a) == 0) as -> by (setoid_replace (a - a) with 0 by ring; reflexivity).
  pose proof (Qabs_nonneg a). unfold atol, rtol. nra.
Qed.

Lemma allclose_refl l : allclose l l = true.
Proof. induction l as [|a l IH]; simpl; [reflexivity|]. now rewrite close_refl, IH. Qed.

Lemma all_eq_refl l : all_eq l l = true.
Proof. induction l as [|a l IH]; simpl; [reflexivity|]. now rewrite Nat.eqb_refl, IH. Qed.

Lemma all_eq_eq l l' : all_eq l l' = true <-> l = l'.
Proof.
  revert l'; induction l as [|a l IH]; intros [|b l']; simpl; split; intros H; try discriminate; auto.
  - apply andb_true_iff in H. destruct H as [H1 H2]. apply Nat.eqb_eq in H1. apply IH in H2. now subst.
  - inversion H; subst. now rewrite Nat.eqb_refl, all_eq_refl.
Qed.

Lemma compare_self v s : store_val v = Some s -> compare_one s v = (true, false).
Proof.
  destruct v; simpl; intros [= <-]; simpl.
  - now rewrite Qeq_bool_refl.
  - now rewrite Nat.eqb_refl.
  - now rewrite Nat.eqb_refl, allclose_refl.
  - now rewrite Nat.eqb_refl, all_eq_refl.
Qed.

(** lookup after writing *)
Lemma lookup_set_same k v a : lookup k (set_attr k v a) = Some v.
Proof.
  induction a as [|[k' v'] a IH]; simpl; [now rewrite Nat.eqb_refl|].
  destruct (Nat.eqb_spec k k'); simpl; [now rewrite Nat.eqb_refl|].
  destruct (Nat.eqb_spec k k'); [contradiction|exact IH].
Qed.

Lemma lookup_set_other k k' v a : k <> k' -> lookup k (set_attr k' v a) = lookup k a.
Proof.
  intros Hn. induction a as [|[k2 v2] a IH]; simpl.
  - destruct (Nat.eqb_spec k k'); [contradiction|reflexivity].
  - destruct (Nat.eqb_spec k' k2); simpl.
    + subst. destruct (Nat.eqb_spec k k2); [contradiction|reflexivity].
    + destruct (Nat.eqb_spec k k2); [reflexivity|exact IH].
Qed.

(** with distinct keys, every written (non-None) entry is read back as stored *)
Lemma lookup_write d : NoDup (map fst d) -> forall a k v s, In (k, v) d -> store_val v = Some s ->
  lookup k (write_attrs a d) = Some s.
Proof.
  unfold write_attrs. induction d as [|[k0 v0] d IH]; intros Hnd a k v s Hin Hs; [contradiction|].
  simpl in Hnd. inversion Hnd as [|? ? Hk0 Hnd']; subst. simpl.
  destruct Hin as [[= -> ->]|Hin].
  - rewrite Hs.
    assert (Hkeep : forall d' acc, ~ In k (map fst d') -> lookup k acc = Some s ->
              lookup k (fold_left (fun acc kv => match store_val (snd kv) with Some s0 => set_attr (fst kv) s0 acc | None => acc end) d' acc) = Some s).
    { induction d' as [|[k1 v1] d' IHd]; intros acc Hni Hl; simpl; [exact Hl|].
      simpl in Hni. apply IHd; [intro Hx; apply Hni; right; exact Hx|]. cbn [fst snd]. destruct (store_val v1); [|exact Hl].
      rewrite lookup_set_other by (intro E; apply Hni; left; now symmetry). exact Hl. }
    apply Hkeep; [exact Hk0| apply lookup_set_same].
  - apply (IH Hnd' _ k v s Hin Hs).
Qed.

(** ** reflexivity: the very dictionary that was written matches *)
Lemma check_step A k v s q : store_val v = Some s -> lookup k A = Some s ->
  check_loop A ((k, v) :: q) = check_loop A q.
Proof.
  intros Hs Hl. pose proof (compare_self v s Hs) as Hc.
  destruct v; [discriminate| | | |]; cbn [check_loop]; rewrite Hl, Hc; reflexivity.
Qed.

Theorem match_reflexive a d : NoDup (map fst d) -> check_for_matching_attrs (write_attrs a d) d = true.
Proof.
  intros Hnd. unfold check_for_matching_attrs.
  assert (H : forall q, incl q d -> check_loop (write_attrs a d) q = true).
  { induction q as [|[k v] q IH]; intros Hincl; [reflexivity|].
    assert (Hq : incl q d) by (intros x Hx; apply Hincl; now right).
    destruct (store_val v) as [s|] eqn:Es.
    - rewrite (check_step _ k v s q Es); [apply IH; exact Hq|].
      eapply lookup_write; [exact Hnd| apply Hincl; now left| exact Es].
    - destruct v; try discriminate. cbn [check_loop]. apply IH; exact Hq. }
  apply H. apply incl_refl.
Qed.

(** ** None entries are ignored *)
Theorem match_none_ignored a q1 q2 k :
  check_for_matching_attrs a (q1 ++ (k, PNone) :: q2) = check_for_matching_attrs a (q1 ++ q2).
Proof.
  unfold check_for_matching_attrs. induction q1 as [|[k1 v1] q1 IH]; simpl; [reflexivity|].
  destruct v1; [exact IH| | | |]; (destruct (lookup k1 a) as [old|]; [|reflexivity]);
    destruct (compare_one old _) as [t brk]; destruct brk; try reflexivity; now rewrite IH.
Qed.

(** ** a queried entry that is not stored gives a mismatch *)
Theorem match_missing_key a q1 q2 k v : v <> PNone -> lookup k a = None ->
  check_for_matching_attrs a (q1 ++ (k, v) :: q2) = false.
Proof.
  intros Hv Hl. unfold check_for_matching_attrs. induction q1 as [|[k1 v1] q1 IH]; simpl.
  - rewrite Hl. destruct v; [contradiction| | | |]; reflexivity.
  - destruct v1; [exact IH| | | |]; (destruct (lookup k1 a) as [old|]; [|reflexivity]);
      destruct (compare_one old _) as [t brk]; destruct brk; try reflexivity; rewrite IH; apply andb_false_r.
Qed.

(** ** sensitivity: one entry whose comparison fails makes the whole query fail *)
Lemma match_one_false a q1 q2 k v old : v <> PNone -> lookup k a = Some old -> fst (compare_one old v) = false ->
  check_for_matching_attrs a (q1 ++ (k, v) :: q2) = false.
Proof.
  intros Hv Hl Hc. unfold check_for_matching_attrs. induction q1 as [|[k1 v1] q1 IH]; simpl.
  - rewrite Hl. destruct (compare_one old v) as [t brk] eqn:E. simpl in Hc. subst t.
    destruct v; [contradiction| | | |]; destruct brk; reflexivity.
  - destruct v1; [exact IH| | | |]; (destruct (lookup k1 a) as [old1|]; [|reflexivity]);
      destruct (compare_one old1 _) as [t brk]; destruct brk; try reflexivity; rewrite IH; apply andb_false_r.
Qed.

(** same-kind perturbations of one entry *)
Definition separated (a b : Q) : Prop := ~ (Qabs (a - b) <= atol + rtol * Qabs b).

Inductive perturbed : stored -> pyval -> Prop :=
| pert_num q q' : ~ q' == q -> perturbed (SNum q) (PNum q')
| pert_str s s' : s' <> s -> perturbed (SStr s) (PStr s')
| pert_len_n l l' : length l <> length l' -> perturbed (SNums l) (PNums l')
| pert_len_s l l' : length l <> length l' -> perturbed (SStrs l) (PStrs l')
| pert_elem_s l l' : length l = length l' -> l <> l' -> perturbed (SStrs l) (PStrs l')
| pert_elem_n l1 x l2 y : separated x y -> perturbed (SNums (l1 ++ x :: l2)) (PNums (l1 ++ y :: l2)).

Lemma allclose_sep l1 x l2 y : separated x y -> allclose (l1 ++ x :: l2) (l1 ++ y :: l2) = false.
Proof.
  intros Hs. induction l1 as [|a l1 IH]; simpl.
  - assert (close x y = false) as ->; [|reflexivity].
    unfold close. destruct (Qle_bool (Qabs (x - y)) (atol + rtol * Qabs y)) eqn:E; [|reflexivity].
    apply Qle_bool_iff in E. contradiction.
  - rewrite IH. apply andb_false_r.
Qed.

Lemma perturbed_false old v : perturbed old v -> fst (compare_one old v) = false /\ v <> PNone.
Proof.
  intros H. destruct H; simpl; (split; [|discriminate]).
  - destruct (Qeq_bool q' q) eqn:E; [|reflexivity]. apply Qeq_bool_eq in E. contradiction.
  - now apply Nat.eqb_neq.
  - destruct (Nat.eqb_spec (length l) (length l')); [contradiction|reflexivity].
  - destruct (Nat.eqb_spec (length l) (length l')); [contradiction|reflexivity].
  - rewrite H, Nat.eqb_refl. simpl. destruct (all_eq l l') eqn:E; [|reflexivity]. apply all_eq_eq in E. contradiction.
  - rewrite !app_length. simpl. rewrite Nat.eqb_refl. simpl. now apply allclose_sep.
Qed.

Theorem match_sensitive a q1 q2 k v old : lookup k a = Some old -> perturbed old v ->
  check_for_matching_attrs a (q1 ++ (k, v) :: q2) = false.
Proof.
  intros Hl Hp. destruct (perturbed_false old v Hp) as [Hc Hv]. eapply match_one_false; eassumption.
Qed.

(** the tolerance of np.allclose: a numeric list entry perturbed by no more than the tolerance still "matches" *)
Theorem match_sensitive_refuted_within_tolerance :
  exists a q, lookup 0%nat a = Some (SNums [1; 2]) /\ q = [(0%nat, PNums [1; 2 + (1 # 1000000000)])] /\
              check_for_matching_attrs a q = true.
Proof. exists [(0%nat, SNums [1; 2])], [(0%nat, PNums [1; 2 + (1 # 1000000000)])]. repeat split. Qed.
