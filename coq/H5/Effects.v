(** Reachability over the effect graph generated from the pyUSID sources (Gen/Gen_Effects.v). *)
From Coq Require Import List Arith Bool Lia.
Require Import V.Gen.Gen_Effects.
Import ListNotations.

Definition nid (n : node) : nat := let '(i, _, _, _) := n in i.
Definition nwrites (n : node) : nat := let '(_, w, _, _) := n in w.
Definition ncallees (n : node) : list nat := let '(_, _, c, _) := n in c.
Definition nunclass (n : node) : nat := let '(_, _, _, u) := n in u.

Definition lookup (g : list node) (i : nat) : option node := find (fun n => Nat.eqb (nid n) i) g.
Definition callees (g : list node) (i : nat) : list nat := match lookup g i with Some n => ncallees n | None => [] end.
Definition mem (i : nat) (l : list nat) : bool := existsb (Nat.eqb i) l.

(** breadth-first closure with explicit fuel *)
Fixpoint reach (g : list node) (fuel : nat) (frontier visited : list nat) : list nat :=
  match fuel with
  | O => visited ++ frontier
  | S f =>
      match frontier with
      | [] => visited
      | i :: rest =>
          if mem i visited then reach g f rest visited
          else reach g f (rest ++ callees g i) (i :: visited)
      end
  end.

Definition closure (g : list node) (e : nat) : list nat := reach g (S (length g) * S (length g)) [e] [].

(** the checks that are evaluated over the generated graph *)
Definition closed (g : list node) (R : list nat) : bool := forallb (fun i => forallb (fun c => mem c R) (callees g i)) R.
Definition clean (g : list node) (i : nat) : bool :=
  match lookup g i with Some n => Nat.eqb (nwrites n) 0 && Nat.eqb (nunclass n) 0 | None => false end.
Definition entry_ok (g : list node) (e : nat) : bool :=
  let R := closure g e in mem e R && closed g R && forallb (clean g) R.

(** semantic reading: a call path in the graph *)
Inductive path (g : list node) : nat -> nat -> Prop :=
| p_refl i : path g i i
| p_step i j k : In j (callees g i) -> path g j k -> path g i k.

Lemma mem_in i l : mem i l = true <-> In i l.
Proof.
  unfold mem. rewrite existsb_exists. split.
  - intros (x & Hx & E). apply Nat.eqb_eq in E. now subst.
  - intros H. exists i. split; [exact H| apply Nat.eqb_refl].
Qed.

Lemma closed_path g R : closed g R = true -> forall i k, path g i k -> In i R -> In k R.
Proof.
  intros Hc i k Hp. induction Hp as [i|i j k Hj Hp IH]; intros Hi; [exact Hi|].
  apply IH. unfold closed in Hc. rewrite forallb_forall in Hc. specialize (Hc i Hi). rewrite forallb_forall in Hc.
  apply mem_in. apply Hc. exact Hj.
Qed.

(** if the evaluated check passes for an entry point, every function reachable from it through any call path
    contains no write primitive and no unclassified call *)
Theorem entry_ok_sound g e : entry_ok g e = true ->
  forall k, path g e k -> exists n, lookup g k = Some n /\ nwrites n = 0 /\ nunclass n = 0.
Proof.
  unfold entry_ok. intros H k Hp. apply andb_true_iff in H. destruct H as [H Hclean]. apply andb_true_iff in H. destruct H as [Hm Hc].
  apply mem_in in Hm. pose proof (closed_path g _ Hc e k Hp Hm) as Hk.
  rewrite forallb_forall in Hclean. specialize (Hclean k Hk). unfold clean in Hclean.
  destruct (lookup g k) as [n|]; [|discriminate]. apply andb_true_iff in Hclean. destruct Hclean as [H1 H2].
  apply Nat.eqb_eq in H1, H2. eauto.
Qed.

(** sanity of the analysis: a write primitive IS reachable from every write-side entry point *)
Definition writes_reachable (g : list node) (e : nat) : bool :=
  existsb (fun i => match lookup g i with Some n => Nat.ltb 0 (nwrites n) | None => false end) (closure g e).
