From Coq Require Import List Arith Lia Bool.
Require Import V.Base.CorrAux V.H5.IsMain.
Import ListNotations.

Lemma nat_list_eqb_eq a b : list_eqb Nat.eqb a b = true <-> a = b.
Proof. apply list_eqb_eq. intros x y. apply Nat.eqb_eq. Qed.

Ltac btrue :=
  repeat match goal with
  | H : _ && _ = true |- _ => apply andb_true_iff in H; destruct H
  | H : negb _ = false |- _ => apply negb_false_iff in H
  | H : _ || _ = false |- _ => apply orb_false_iff in H; destruct H
  | H : Nat.eqb _ _ = true |- _ => apply Nat.eqb_eq in H
  | H : Nat.eqb _ _ = false |- _ => apply Nat.eqb_neq in H
  | H : list_eqb Nat.eqb _ _ = true |- _ => apply nat_list_eqb_eq in H
  | H : shape_eqb _ _ = true |- _ => apply nat_list_eqb_eq in H
  end.

(** soundness: a True answer means every structural rule holds *)
Theorem check_if_main_sound d : check_if_main d = true -> is_main_spec d.
Proof.
  unfold check_if_main.
  repeat match goal with
  | |- (if ?b then false else _) = true -> _ => let E := fresh "E" in destruct b eqn:E; [discriminate|]
  end.
  intros _. unfold link_ok, rank2, anc_attrs_ok, is_strs in *. btrue.
  unfold is_main_spec, anc_rules.
  repeat split; try assumption; try congruence; try lia.
  all: try (destruct (d_isdset d); [reflexivity|discriminate]).
Qed.

Ltac bfalse_goal :=
  repeat match goal with
  | |- negb _ = false => apply negb_false_iff
  | |- _ && _ = true => apply andb_true_iff; split
  | |- _ || _ = false => apply orb_false_iff; split
  | |- Nat.eqb _ _ = true => apply Nat.eqb_eq
  | |- Nat.eqb _ _ = false => apply Nat.eqb_neq
  | |- list_eqb Nat.eqb _ _ = true => apply nat_list_eqb_eq
  | |- shape_eqb _ _ = true => apply nat_list_eqb_eq
  end.

(** completeness: when every structural rule holds the answer is True *)
Theorem check_if_main_complete d : is_main_spec d -> check_if_main d = true.
Proof.
  unfold is_main_spec, anc_rules.
  intros (H1 & H2 & H3 & H4 & (P1 & P2 & P3 & P4 & P5 & P6 & P7 & P8 & P9 & P10 & P11 & P12 & P13 & P14)
                         & (S1 & S2 & S3 & S4 & S5 & S6 & S7 & S8 & S9 & S10 & S11 & S12 & S13 & S14)).
  unfold check_if_main. rewrite H1. cbn [negb].
  assert (R : rank2 (d_shape d) = true) by (unfold rank2; now apply Nat.eqb_eq). rewrite R. cbn [negb].
  assert (L1 : link_ok (d_pi d) = true) by (unfold link_ok, rank2; bfalse_goal; assumption).
  assert (L2 : link_ok (d_pv d) = true) by (unfold link_ok, rank2; bfalse_goal; assumption).
  assert (L3 : link_ok (d_si d) = true) by (unfold link_ok, rank2; bfalse_goal; assumption).
  assert (L4 : link_ok (d_sv d) = true) by (unfold link_ok, rank2; bfalse_goal; assumption).
  rewrite L1, L2, L3, L4. cbn [negb]. rewrite H3, H4. cbn [Nat.eqb orb negb].
  rewrite <- P5, <- S5.
  assert (T1 : shape_eqb (a_shape (d_pi d)) (a_shape (d_pi d)) = true) by (apply nat_list_eqb_eq; reflexivity).
  assert (T2 : shape_eqb (a_shape (d_si d)) (a_shape (d_si d)) = true) by (apply nat_list_eqb_eq; reflexivity).
  rewrite T1, T2, <- P6, <- S6, !Nat.eqb_refl. cbn [andb negb].
  assert (A1 : anc_attrs_ok (d_pi d) (d_pv d) 1 = true).
  { unfold anc_attrs_ok, is_strs. rewrite P7, P8, P9, P10, <- P5, <- P11, <- P12, <- P13, <- P14, T1, !Nat.eqb_refl.
    cbn [Nat.eqb andb]. rewrite !(proj2 (nat_list_eqb_eq _ _) eq_refl). reflexivity. }
  assert (A2 : anc_attrs_ok (d_si d) (d_sv d) 0 = true).
  { unfold anc_attrs_ok, is_strs. rewrite S7, S8, S9, S10, <- S5, <- S11, <- S12, <- S13, <- S14, T2, !Nat.eqb_refl.
    cbn [Nat.eqb andb]. rewrite !(proj2 (nat_list_eqb_eq _ _) eq_refl). reflexivity. }
  rewrite A1, A2. reflexivity.
Qed.

Theorem check_if_main_exact d : check_if_main d = true <-> is_main_spec d.
Proof. split; [apply check_if_main_sound| apply check_if_main_complete]. Qed.

Theorem wrapper_gate d : (wrap d = Constructed <-> is_main_spec d) /\ (wrap d = RaisesTypeError <-> ~ is_main_spec d).
Proof.
  unfold wrap. destruct (check_if_main d) eqn:E.
  - apply check_if_main_exact in E. split; split; intros H; [exact E|reflexivity|discriminate|contradiction].
  - assert (~ is_main_spec d) as Hn by (intro H; apply check_if_main_exact in H; congruence).
    split; split; intros H; [discriminate|contradiction|exact Hn|reflexivity].
Qed.

Theorem get_all_main_exact {A} (objs : list (A * desc)) x :
  In x (get_all_main objs) <-> exists d, In (x, d) objs /\ is_main_spec d.
Proof.
  unfold get_all_main. rewrite in_map_iff. split.
  - intros ([y d] & <- & H). apply filter_In in H. destruct H as [Hin Hc]. exists d. split; [exact Hin| now apply check_if_main_exact].
  - intros (d & Hin & Hs). exists (x, d). split; [reflexivity|]. apply filter_In. split; [exact Hin| now apply check_if_main_exact].
Qed.
