(** Row-major N-dimensional arrays: shape + flat data (numpy / dask semantics
    of reshape and transpose). *)
From Coq Require Import List Arith Lia Bool.
Require Import V.Base.ListAux V.Base.Radix.
Import ListNotations.

Record nd (A : Type) := mkNd { nd_shape : list nat; nd_data : list A }.
Arguments mkNd {A}. Arguments nd_shape {A}. Arguments nd_data {A}.

(** C-order flat offset of a multi-index, and its inverse *)
Fixpoint ravel (shape idx : list nat) : nat :=
  match shape, idx with
  | s :: ss, i :: is_ => i * prod ss + ravel ss is_
  | _, _ => 0
  end.

Fixpoint unravel (shape : list nat) (n : nat) : list nat :=
  match shape with
  | [] => []
  | s :: ss => (n / prod ss) :: unravel ss (n mod prod ss)
  end.

Definition nd_get {A} (d : A) (a : nd A) (idx : list nat) : A := nth (ravel (nd_shape a) idx) (nd_data a) d.

(** position of the first occurrence of x (length l if absent) *)
Fixpoint index_of (x : nat) (l : list nat) : nat :=
  match l with
  | [] => 0
  | y :: r => if Nat.eqb y x then 0 else S (index_of x r)
  end.

(** a.transpose(axes): result axis k is input axis axes[k] *)
Definition scatter (axes j : list nat) : list nat :=
  map (fun ax => nth (index_of ax axes) j 0) (seq 0 (length axes)).

Definition nd_transpose {A} (d : A) (a : nd A) (axes : list nat) : nd A :=
  let shape' := map (fun ax => nth ax (nd_shape a) 1) axes in
  mkNd shape' (map (fun n => nd_get d a (scatter axes (unravel shape' n))) (seq 0 (prod shape'))).

Definition is_perm (axes : list nat) (k : nat) : bool :=
  Nat.eqb (length axes) k && forallb (fun i => existsb (Nat.eqb i) axes) (seq 0 k).
