(** Row-major N-dimensional arrays: shape + flat data (numpy / dask semantics
    of reshape and transpose). *)
From Coq Require Import List Arith Lia Bool.
Require Import V.Base.ListAux V.Base.Radix.
Import ListNotations.

Record nd (A : Type) := mkNd { nd_shape : list nat; nd_data : list A }.
Arguments mkNd {A}. Arguments nd_shape {A}. Arguments nd_data {A}.

(** C-order flat offset of a multi-index, and its inverse *)
Fixpoint ravel (shape idx : list nat) : nat :=
  match shape, idx with
  | s :: ss, i :: is_ => i * prod ss + ravel ss is_
  | _, _ => 0
  end.

Fixpoint unravel (shape : list nat) (n : nat) : list nat :=
  match shape with
  | [] => []
  | s :: ss => (n / prod ss) :: unravel ss (n mod prod ss)
  end.

Definition nd_get {A} (d : A) (a : nd A) (idx : list nat) : A := nth (ravel (nd_shape a) idx) (nd_data a) d.

(** position of the first occurrence of x (length l if absent) *)
Fixpoint index_of (x : nat) (l : list nat) : nat :=
  match l with
  | [] => 0
  | y :: r => if Nat.eqb y x then 0 else S (index_of x r)
  end.

(** a.transpose(axes): result axis k is input axis axes[k] *)
Definition scatter (axes j : list nat) : list nat :=
  map (fun ax => nth (index_of ax axes) j 0) (seq 0 (length axes)).

Definition nd_transpose {A} (d : A) (a : nd A) (axes : list nat) : nd A :=
  let shape' := map (fun ax => nth ax (nd_shape a) 1) axes in
  mkNd shape' (map (fun n => nd_get d a (scatter axes (unravel shape' n))) (seq 0 (prod shape'))).

Definition is_perm (axes : list nat) (k : nat) : bool :=
  Nat.eqb (length axes) k && forallb (fun i => existsb (Nat.eqb i) axes) (seq 0 k).

(** * Facts *)

Lemma index_of_nth l : NoDup l -> forall i, i < length l -> index_of (nth i l 0) l = i.
Proof.
  induction 1 as [|x l Hx Hnd IH]; intros i Hi; simpl in *; [lia|].
  destruct i as [|i].
  - now rewrite Nat.eqb_refl.
  - destruct (Nat.eqb_spec x (nth i l 0)) as [E|E].
    + exfalso. apply Hx. rewrite E. apply nth_In. lia.
    + f_equal. apply IH. lia.
Qed.

Lemma nth_index_of x l : In x l -> nth (index_of x l) l 0 = x /\ index_of x l < length l.
Proof.
  induction l as [|y l IH]; intros H; simpl in *; [tauto|].
  destruct (Nat.eqb_spec y x) as [E|E]; [split; [exact E|lia]|].
  destruct H as [H|H]; [congruence|]. destruct (IH H). split; [assumption|lia].
Qed.

Lemma index_of_notin x l : ~ In x l -> index_of x l = length l.
Proof.
  induction l as [|y l IH]; intros H; simpl in *; [reflexivity|].
  destruct (Nat.eqb_spec y x) as [E|E]; [exfalso; apply H; now left|]. f_equal. apply IH. tauto.
Qed.

(** in-bounds multi-index *)
Fixpoint inbounds (idx shape : list nat) : Prop :=
  match idx, shape with
  | [], [] => True
  | i :: is_, s :: ss => i < s /\ inbounds is_ ss
  | _, _ => False
  end.

Lemma inbounds_length idx shape : inbounds idx shape -> length idx = length shape.
Proof.
  revert shape; induction idx as [|i idx IH]; intros [|s ss] H; simpl in *; try tauto.
  destruct H as [_ H]. now rewrite (IH _ H).
Qed.

Lemma ravel_lt shape : forall idx, inbounds idx shape -> ravel shape idx < prod shape.
Proof.
  induction shape as [|s ss IH]; intros [|i idx] H; simpl in *; try tauto; try lia.
  destruct H as [Hi H]. specialize (IH _ H). nia.
Qed.

Lemma unravel_ravel shape : forall idx, inbounds idx shape -> unravel shape (ravel shape idx) = idx.
Proof.
  induction shape as [|s ss IH]; intros [|i idx] H; simpl in *; try tauto.
  destruct H as [Hi H]. pose proof (ravel_lt ss idx H) as Hlt.
  f_equal.
  - rewrite Nat.div_add_l by lia. rewrite Nat.div_small by exact Hlt. lia.
  - rewrite Nat.add_comm, Nat.mod_add by lia. rewrite Nat.mod_small by exact Hlt. apply IH; exact H.
Qed.

Lemma ravel_app s1 : forall s2 i1 i2, length i1 = length s1 ->
  ravel (s1 ++ s2) (i1 ++ i2) = ravel s1 i1 * prod s2 + ravel s2 i2.
Proof.
  induction s1 as [|s s1 IH]; intros s2 [|i i1] i2 H; simpl in *; try lia.
  rewrite IH by lia. rewrite prod_app. lia.
Qed.

(** row-major offset in the slowest-first shape = little-endian value of the fastest-first digits *)
Lemma ravel_rev rs : forall ds, length ds = length rs -> ravel (rev rs) (rev ds) = undigits rs ds.
Proof.
  induction rs as [|r rs IH]; intros [|d ds] H; simpl in *; try lia.
  rewrite ravel_app by (rewrite !rev_length; lia). rewrite IH by lia. simpl. lia.
Qed.

Lemma inbounds_rev ds rs : inb ds rs -> inbounds (rev ds) (rev rs).
Proof.
  revert rs; induction ds as [|d ds IH]; intros [|r rs] H; simpl in *; try tauto.
  destruct H as [Hd H]. specialize (IH _ H).
  clear H. revert IH. generalize (rev ds) (rev rs). intros a b. revert b.
  induction a as [|x a IHa]; intros [|y b] Hab; simpl in *; try tauto.
  destruct Hab as [Hx Hab]. split; [exact Hx| apply IHa; exact Hab].
Qed.

Lemma inbounds_app a1 s1 a2 s2 : inbounds a1 s1 -> inbounds a2 s2 -> inbounds (a1 ++ a2) (s1 ++ s2).
Proof.
  revert s1; induction a1 as [|x a1 IH]; intros [|y s1] H1 H2; simpl in *; try tauto.
  destruct H1 as [Hx H1]. split; [exact Hx| apply IH; assumption].
Qed.

Lemma nth_map_seq {A} (f : nat -> A) n i d : i < n -> nth i (map f (seq 0 n)) d = f i.
Proof.
  intros H. rewrite (nth_indep _ d (f 0)) by (rewrite map_length, seq_length; exact H).
  rewrite (map_nth f (seq 0 n) 0 i), seq_nth by exact H. reflexivity.
Qed.

(** reading the transposed array at j = reading the source where axis axes[k] carries j[k] *)
Lemma nd_transpose_get {A} (d : A) (a : nd A) axes j :
  inbounds j (map (fun ax => nth ax (nd_shape a) 1) axes) ->
  nd_get d (nd_transpose d a axes) j = nd_get d a (scatter axes j).
Proof.
  intros Hj. unfold nd_transpose, nd_get at 1. cbn [nd_shape nd_data].
  set (shape' := map (fun ax => nth ax (nd_shape a) 1) axes) in *.
  rewrite nth_map_seq by (apply ravel_lt; exact Hj).
  now rewrite unravel_ravel by exact Hj.
Qed.
