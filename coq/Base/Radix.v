(** Mixed-radix numbers, little-endian (fastest digit first): the coordinate
    algebra behind USID index matrices. *)
From Coq Require Import List Arith Lia.
Require Import V.Base.ListAux.
Import ListNotations.

Fixpoint digits (rs : list nat) (n : nat) : list nat :=
  match rs with
  | [] => []
  | r :: rest => (n mod r) :: digits rest (n / r)
  end.

Fixpoint undigits (rs ds : list nat) : nat :=
  match rs, ds with
  | r :: rest, d :: ds' => d + r * undigits rest ds'
  | _, _ => 0
  end.

(** [inb ds rs]: every digit is below its radix (same length) *)
Fixpoint inb (ds rs : list nat) : Prop :=
  match ds, rs with
  | [], [] => True
  | d :: ds', r :: rs' => d < r /\ inb ds' rs'
  | _, _ => False
  end.

Lemma digits_length rs n : length (digits rs n) = length rs.
Proof. revert n; induction rs as [|r rs IH]; intros n; simpl; [reflexivity|]. now rewrite IH. Qed.

Lemma inb_length ds rs : inb ds rs -> length ds = length rs.
Proof.
  revert rs; induction ds as [|d ds IH]; intros [|r rs] H; simpl in *; try tauto.
  destruct H as [_ H]. now rewrite (IH _ H).
Qed.

Lemma digits_inb rs n : Forall (fun r => 0 < r) rs -> inb (digits rs n) rs.
Proof.
  intros H; revert n; induction H as [|r rs Hr _ IH]; intros n; simpl; [exact I|].
  split; [apply Nat.mod_upper_bound; lia| apply IH].
Qed.

Lemma undigits_digits rs : Forall (fun r => 0 < r) rs -> forall n, n < prod rs -> undigits rs (digits rs n) = n.
Proof.
  induction 1 as [|r rs Hr _ IH]; intros n Hn; simpl in *; [lia|].
  rewrite IH.
  - symmetry. rewrite Nat.add_comm. apply Nat.div_mod. lia.
  - apply Nat.div_lt_upper_bound; lia.
Qed.

Lemma digits_undigits rs : forall ds, inb ds rs -> digits rs (undigits rs ds) = ds.
Proof.
  induction rs as [|r rs IH]; intros [|d ds] H; simpl in *; try tauto.
  destruct H as [Hd H]. set (u := undigits rs ds).
  replace (d + r * u) with (d + u * r) by lia.
  f_equal.
  - rewrite Nat.mod_add by lia. apply Nat.mod_small; exact Hd.
  - rewrite Nat.div_add by lia. rewrite Nat.div_small by exact Hd. simpl. apply IH; exact H.
Qed.

Lemma undigits_lt rs : forall ds, inb ds rs -> undigits rs ds < prod rs.
Proof.
  induction rs as [|r rs IH]; intros [|d ds] H; simpl in *; try tauto; [lia|].
  destruct H as [Hd H]. specialize (IH _ H). nia.
Qed.

(** digit [j] in closed form *)
Lemma nth_digits rs : Forall (fun r => 0 < r) rs -> forall j n, j < length rs ->
  nth j (digits rs n) 0 = (n / prod (firstn j rs)) mod nth j rs 1.
Proof.
  induction 1 as [|r rs Hr Hall IH]; intros j n Hj; [simpl in Hj; lia|].
  destruct j as [|j]; cbn [digits nth firstn prod].
  - now rewrite Nat.div_1_r.
  - simpl in Hj. rewrite IH by lia. rewrite Nat.div_div; [reflexivity|lia|].
    assert (0 < prod (firstn j rs)); [|lia].
    apply prod_pos. apply Forall_forall. intros x Hx. rewrite Forall_forall in Hall. apply Hall.
    eapply In_firstn; exact Hx.
Qed.

(** two numbers below the product with the same digits are equal; distinct numbers differ in a digit *)
Lemma digits_inj rs : Forall (fun r => 0 < r) rs -> forall n m, n < prod rs -> m < prod rs ->
  digits rs n = digits rs m -> n = m.
Proof.
  intros H n m Hn Hm E. rewrite <- (undigits_digits rs H n Hn), <- (undigits_digits rs H m Hm). now rewrite E.
Qed.

(** every in-bounds digit vector occurs exactly once among the rows 0 .. prod rs - 1 *)
Theorem digits_bijection rs : Forall (fun r => 0 < r) rs -> forall ds, inb ds rs ->
  exists n, n < prod rs /\ digits rs n = ds /\ forall m, m < prod rs -> digits rs m = ds -> m = n.
Proof.
  intros H ds Hds. exists (undigits rs ds). split; [apply undigits_lt; exact Hds|]. split; [apply digits_undigits; exact Hds|].
  intros m Hm E. subst ds. symmetry. apply undigits_digits; assumption.
Qed.
