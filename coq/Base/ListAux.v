(** Small list toolkit shared by the models: slices, sums, products. *)
From Coq Require Import List Arith Lia Bool.
Import ListNotations.

Definition slice {A} (l : list A) (a b : nat) : list A := firstn (b - a) (skipn a l).

Lemma slice_length {A} (l : list A) a b : b <= length l -> length (slice l a b) = b - a.
Proof. intros H. unfold slice. rewrite firstn_length, skipn_length. lia. Qed.

Lemma firstn_add_app {A} (l : list A) a b : firstn (a + b) l = firstn a l ++ firstn b (skipn a l).
Proof.
  revert l; induction a as [|a IH]; intros l; simpl; [reflexivity|].
  destruct l as [|x l]; simpl; [now rewrite firstn_nil|]. now rewrite IH.
Qed.

Lemma skipn_add {A} (l : list A) a b : skipn (a + b) l = skipn b (skipn a l).
Proof.
  revert l; induction a as [|a IH]; intros l; simpl; [reflexivity|].
  destruct l as [|x l]; simpl; [now rewrite skipn_nil|]. apply IH.
Qed.

Lemma slice_app {A} (l : list A) a b c : a <= b -> b <= c -> slice l a b ++ slice l b c = slice l a c.
Proof.
  intros Hab Hbc. unfold slice.
  replace (c - a) with ((b - a) + (c - b)) by lia.
  rewrite firstn_add_app. f_equal. rewrite <- skipn_add. do 2 f_equal. lia.
Qed.

Lemma slice_all {A} (l : list A) : slice l 0 (length l) = l.
Proof. unfold slice. simpl. rewrite Nat.sub_0_r. apply firstn_all. Qed.

Lemma slice_nil {A} (l : list A) a : slice l a a = [].
Proof. unfold slice. now rewrite Nat.sub_diag. Qed.

Lemma nth_firstn_lt {A} (l : list A) n i d : i < n -> nth i (firstn n l) d = nth i l d.
Proof.
  revert l i; induction n as [|n IH]; intros l i Hi; [lia|].
  destruct l as [|x l]; simpl; [reflexivity|]. destruct i as [|i]; [reflexivity|]. apply IH; lia.
Qed.

Lemma nth_skipn_add {A} (l : list A) a i d : nth i (skipn a l) d = nth (a + i) l d.
Proof.
  revert l; induction a as [|a IH]; intros l; simpl; [reflexivity|].
  destruct l as [|x l]; simpl; [now destruct i|]. apply IH.
Qed.

Lemma nth_slice {A} (l : list A) a b i d : i < b - a -> b <= length l -> nth i (slice l a b) d = nth (a + i) l d.
Proof.
  intros Hi Hb. unfold slice. rewrite nth_firstn_lt by lia. apply nth_skipn_add.
Qed.

Fixpoint prod (l : list nat) : nat := match l with [] => 1 | x :: r => x * prod r end.

Lemma prod_app l1 l2 : prod (l1 ++ l2) = prod l1 * prod l2.
Proof. induction l1 as [|x l1 IH]; simpl; [lia|]. rewrite IH. lia. Qed.

Lemma prod_pos l : Forall (fun x => 0 < x) l -> 0 < prod l.
Proof. induction 1; simpl; [lia|]. nia. Qed.

Lemma prod_rev l : prod (rev l) = prod l.
Proof. induction l as [|x l IH]; simpl; [reflexivity|]. rewrite prod_app, IH. simpl. lia. Qed.

(** indexed map *)
Fixpoint mapi_from {A B} (f : nat -> A -> B) (l : list A) (i : nat) : list B :=
  match l with [] => [] | x :: r => f i x :: mapi_from f r (S i) end.
Definition mapi {A B} (f : nat -> A -> B) (l : list A) : list B := mapi_from f l 0.

Lemma mapi_from_length {A B} (f : nat -> A -> B) l i : length (mapi_from f l i) = length l.
Proof. revert i; induction l as [|x r IH]; intros i; simpl; [reflexivity|]. now rewrite IH. Qed.

Lemma nth_mapi_from {A B} (f : nat -> A -> B) l i k d d' :
  k < length l -> nth k (mapi_from f l i) d' = f (i + k) (nth k l d).
Proof.
  revert i k; induction l as [|x r IH]; intros i k Hk; simpl in *; [lia|].
  destruct k as [|k]; [now rewrite Nat.add_0_r|]. rewrite IH by lia. f_equal. lia.
Qed.

Lemma mapi_length {A B} (f : nat -> A -> B) l : length (mapi f l) = length l.
Proof. apply mapi_from_length. Qed.

Lemma nth_mapi {A B} (f : nat -> A -> B) l k d d' : k < length l -> nth k (mapi f l) d' = f k (nth k l d).
Proof. intros H. unfold mapi. now rewrite (nth_mapi_from f l 0 k d d' H). Qed.

(** np.where(v == x)[0] : ascending positions holding x *)
Fixpoint where_from (names : list nat) (x i : nat) : list nat :=
  match names with
  | [] => []
  | y :: r => if Nat.eqb y x then i :: where_from r x (S i) else where_from r x (S i)
  end.
Definition where_eq names x := where_from names x 0.


Lemma in_where_from names x : forall i q,
  In q (where_from names x i) <-> exists k, q = i + k /\ k < length names /\ nth k names 0 = x.
Proof.
  induction names as [|y r IH]; intros i q; simpl.
  - split; [tauto| intros (k & _ & H & _); lia].
  - destruct (Nat.eqb_spec y x) as [E|E]; simpl; rewrite IH; split.
    + intros [H|(k & -> & Hk & Hn)].
      * exists 0. subst. split; [lia|]. split; [lia|reflexivity].
      * exists (S k). split; [lia|]. split; [lia|exact Hn].
    + intros (k & -> & Hk & Hn). destruct k as [|k]; [left; lia|]. right. exists k. split; [lia|]. split; [lia|exact Hn].
    + intros (k & -> & Hk & Hn). exists (S k). split; [lia|]. split; [lia|exact Hn].
    + intros (k & -> & Hk & Hn). destruct k as [|k]; [congruence|]. exists k. split; [lia|]. split; [lia|exact Hn].
Qed.


Lemma existsb_eqb_in i l : existsb (Nat.eqb i) l = true <-> In i l.
Proof.
  rewrite existsb_exists. split.
  - intros (x & Hx & E). apply Nat.eqb_eq in E. now subst.
  - intros H. exists i. split; [exact H| apply Nat.eqb_refl].
Qed.


Lemma In_firstn {A} (x : A) n l : In x (firstn n l) -> In x l.
Proof.
  revert l; induction n as [|n IH]; intros l H; simpl in *; [tauto|].
  destruct l as [|y l]; simpl in *; [tauto|]. destruct H as [H|H]; [now left| right; now apply IH].
Qed.

Lemma NoDup_app_intro {A} (l1 l2 : list A) :
  NoDup l1 -> NoDup l2 -> (forall x, In x l1 -> In x l2 -> False) -> NoDup (l1 ++ l2).
Proof.
  induction 1 as [|x l1 Hx H1 IH]; intros H2 Hd; simpl; [exact H2|].
  constructor.
  - intro Hin. apply in_app_or in Hin. destruct Hin as [Hin|Hin]; [contradiction| apply (Hd x); [now left|exact Hin]].
  - apply IH; [exact H2| intros y Hy1 Hy2; apply (Hd y); [now right|exact Hy2]].
Qed.

Lemma NoDup_map_inj {A B} (f : A -> B) l : (forall x y, f x = f y -> x = y) -> NoDup l -> NoDup (map f l).
Proof.
  intros Hf. induction 1 as [|x l Hx H IH]; simpl; constructor; [|exact IH].
  intro Hin. apply in_map_iff in Hin. destruct Hin as (y & E & Hy). apply Hf in E. subst. contradiction.
Qed.

Lemma nth_map' {A B} (f : A -> B) l i dA dB : i < length l -> nth i (map f l) dB = f (nth i l dA).
Proof.
  intros H. rewrite (nth_indep _ dB (f dA)) by (rewrite map_length; exact H). apply map_nth.
Qed.

Lemma In_skipn {A} (x : A) n l : In x (skipn n l) -> In x l.
Proof.
  revert l; induction n as [|n IH]; intros l H; simpl in *; [exact H|].
  destruct l as [|y l]; [exact H|]. right. now apply IH.
Qed.

Lemma skipn_cons_nth {A} (l : list A) j d : j < length l -> skipn j l = nth j l d :: skipn (S j) l.
Proof.
  revert j; induction l as [|x l IH]; intros j Hj; simpl in *; [lia|].
  destruct j as [|j]; [reflexivity|]. apply IH. lia.
Qed.

Lemma combine_app {A B} (l1 l2 : list A) (r1 r2 : list B) : length l1 = length r1 ->
  combine (l1 ++ l2) (r1 ++ r2) = combine l1 r1 ++ combine l2 r2.
Proof.
  revert r1; induction l1 as [|x l1 IH]; intros [|y r1] H; simpl in *; try lia; [reflexivity|]. f_equal. apply IH. lia.
Qed.

Lemma combine_map_both {A B C D} (f : A -> C) (g : B -> D) l r :
  combine (map f l) (map g r) = map (fun ab => (f (fst ab), g (snd ab))) (combine l r).
Proof. revert r; induction l as [|x l IH]; intros [|y r]; simpl; try reflexivity. now rewrite IH. Qed.
