(** Helpers for the correspondence case files written by the harness. *)
From Coq Require Import List Arith Bool ZArith.
Import ListNotations.

Fixpoint bad_indices_from {A} (f : A -> bool) (l : list A) (i : nat) : list nat :=
  match l with
  | [] => []
  | x :: r => if f x then bad_indices_from f r (S i) else i :: bad_indices_from f r (S i)
  end.
Definition bad_indices {A} (f : A -> bool) (l : list A) : list nat := bad_indices_from f l 0.

Fixpoint list_eqb {A} (eqb : A -> A -> bool) (l1 l2 : list A) : bool :=
  match l1, l2 with
  | [], [] => true
  | x :: r1, y :: r2 => eqb x y && list_eqb eqb r1 r2
  | _, _ => false
  end.

Definition nat_list_eqb := list_eqb Nat.eqb.
Definition nat_list2_eqb := list_eqb nat_list_eqb.
Definition Z_list_eqb := list_eqb Z.eqb.
Definition Z_list2_eqb := list_eqb Z_list_eqb.

Definition option_eqb {A} (eqb : A -> A -> bool) (a b : option A) : bool :=
  match a, b with
  | None, None => true
  | Some x, Some y => eqb x y
  | _, _ => false
  end.

Lemma list_eqb_eq {A} (eqb : A -> A -> bool) :
  (forall x y, eqb x y = true <-> x = y) -> forall l1 l2, list_eqb eqb l1 l2 = true <-> l1 = l2.
Proof.
  intros H. induction l1 as [|x r IH]; destruct l2 as [|y r2]; simpl; split; intros E; try discriminate; auto.
  - apply andb_true_iff in E. destruct E as [E1 E2]. apply H in E1. apply IH in E2. now subst.
  - inversion E; subst. apply andb_true_iff. split; [now apply H| now apply IH].
Qed.
