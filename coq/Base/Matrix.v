(** Matrices as lists of rows; numpy-style helpers used by the USID models. *)
From Coq Require Import List Arith Lia Bool.
Require Import V.Base.ListAux.
Import ListNotations.

Definition ncols {A} (m : list (list A)) : nat := match m with [] => 0 | r :: _ => length r end.

(** column j of a matrix *)
Definition col {A} (d : A) (m : list (list A)) (j : nat) : list A := map (fun r => nth j r d) m.

(** np.transpose of a rectangular 2-D array *)
Definition transpose2d {A} (d : A) (m : list (list A)) : list (list A) := map (col d m) (seq 0 (ncols m)).

Definition rect {A} (m : list (list A)) (c : nat) : Prop := Forall (fun r => length r = c) m.

Lemma transpose2d_length {A} (d : A) m : length (transpose2d d m) = ncols m.
Proof. unfold transpose2d. now rewrite map_length, seq_length. Qed.

Lemma nth_transpose2d {A} (d : A) m i j : j < ncols m ->
  nth i (nth j (transpose2d d m) []) d = nth j (nth i m []) d.
Proof.
  intros Hj. unfold transpose2d.
  rewrite (nth_indep _ [] (col d m 0)) by (rewrite map_length, seq_length; exact Hj).
  rewrite (map_nth (col d m) (seq 0 (ncols m)) 0 j), seq_nth by exact Hj. simpl.
  unfold col. destruct (Nat.lt_ge_cases i (length m)) as [Hi|Hi].
  - rewrite (nth_indep _ d (nth j [] d)) by (rewrite map_length; exact Hi).
    now rewrite (map_nth (fun r => nth j r d) m [] i).
  - rewrite (nth_overflow (map _ m)) by (rewrite map_length; exact Hi).
    rewrite (nth_overflow m) by exact Hi. now destruct j.
Qed.

(** len(np.unique(row)) *)
Definition unique_count (l : list nat) : nat := length (nodup Nat.eq_dec l).

(** np.tile(l, t) and np.repeat(l, r) *)
Definition tile {A} (l : list A) (t : nat) : list A := concat (repeat l t).
Definition repeat_each {A} (l : list A) (r : nat) : list A := flat_map (fun x => repeat x r) l.

Lemma tile_length {A} (l : list A) t : length (tile l t) = t * length l.
Proof. unfold tile. induction t as [|t IH]; simpl; [reflexivity|]. rewrite app_length, IH. lia. Qed.

Lemma repeat_each_length {A} (l : list A) r : length (repeat_each l r) = length l * r.
Proof. unfold repeat_each. induction l as [|x l IH]; simpl; [reflexivity|]. rewrite app_length, repeat_length, IH. lia. Qed.

Lemma nth_repeat_lt {A} (x d : A) r n : n < r -> nth n (repeat x r) d = x.
Proof. revert n; induction r as [|r IH]; intros n H; [lia|]. destruct n; simpl; [reflexivity| apply IH; lia]. Qed.

Lemma nth_repeat_each {A} (l : list A) r n d : 0 < r -> n < length l * r ->
  nth n (repeat_each l r) d = nth (n / r) l d.
Proof.
  intros Hr. unfold repeat_each. revert n; induction l as [|x l IH]; intros n Hn; simpl in *; [lia|].
  destruct (Nat.lt_ge_cases n r) as [Hlt|Hge].
  - rewrite app_nth1 by (rewrite repeat_length; exact Hlt). rewrite Nat.div_small by exact Hlt.
    apply nth_repeat_lt; exact Hlt.
  - rewrite app_nth2 by (rewrite repeat_length; exact Hge). rewrite repeat_length.
    rewrite IH by lia.
    replace n with ((n - r) + 1 * r) at 2 by lia. rewrite Nat.div_add by lia.
    now rewrite Nat.add_1_r.
Qed.

Lemma nth_tile {A} (l : list A) t n d : n < t * length l -> nth n (tile l t) d = nth (n mod length l) l d.
Proof.
  unfold tile. revert n; induction t as [|t IH]; intros n Hn; simpl in *; [lia|].
  assert (0 < length l) as Hl by (destruct (length l); lia).
  destruct (Nat.lt_ge_cases n (length l)) as [Hlt|Hge].
  - rewrite app_nth1 by exact Hlt. now rewrite Nat.mod_small.
  - rewrite app_nth2 by exact Hge. rewrite IH by lia.
    replace n with ((n - length l) + 1 * length l) at 2 by lia. now rewrite Nat.mod_add by lia.
Qed.
