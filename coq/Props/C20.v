(** C20 -- read-side operations never change the file.  The graph is regenerated from the sources on every run. *)
From Coq Require Import List Arith Bool Lia.
Require Import V.Gen.Gen_Effects V.H5.Effects.
Import ListNotations.

(** evaluated over the whole (finite, completely enumerated) graph *)
Lemma all_read_entry_points_ok : forallb (entry_ok graph) read_entry_points = true.
Proof. vm_compute. reflexivity. Qed.
Print Assumptions all_read_entry_points_ok.

(** For every read-side entry point and every function reachable from it through any chain of calls inside pyUSID: the
    function contains no HDF5 / file-system write primitive and no call the analysis could not classify. *)
Theorem C20_read_api_write_free :
  forall e, In e read_entry_points -> forall k, path graph e k ->
    exists n, lookup graph k = Some n /\ nwrites n = 0 /\ nunclass n = 0.
Proof.
  intros e He. apply entry_ok_sound.
  pose proof all_read_entry_points_ok as H. rewrite forallb_forall in H. apply H, He.
Qed.
Print Assumptions C20_read_api_write_free.

(** Any sequence of read-side calls: a store transformer that is the identity for write-free calls leaves the store as it
    was (frame property over call sequences). *)
Section Frame.
  Variable store : Type.
  Variable effect : nat -> store -> store.                      (* effect of calling entry point e *)
  Hypothesis write_free_is_identity : forall e s, entry_ok graph e = true -> effect e s = s.
  Theorem C20_read_sequences_frame :
    forall (calls : list nat) (s : store), (forall e, In e calls -> In e read_entry_points) -> fold_left (fun st e => effect e st) calls s = s.
  Proof.
    induction calls as [|e calls IH]; intros s H; [reflexivity|]. simpl.
    rewrite write_free_is_identity.
    - apply IH. intros x Hx. apply H. now right.
    - pose proof all_read_entry_points_ok as Hall. rewrite forallb_forall in Hall. apply Hall, H. now left.
  Qed.
End Frame.
Print Assumptions C20_read_sequences_frame.

(** the analysis is not vacuous: from every write-side entry point a write primitive is reachable *)
Theorem C20_write_entry_points_do_write : forallb (writes_reachable graph) write_entry_points = true.
Proof. vm_compute. reflexivity. Qed.
Print Assumptions C20_write_entry_points_do_write.
