(** C01 -- N-D form equals the coordinate map defined by the ancillary matrices. (theorems under construction) *)
From Coq Require Import List Arith Lia Bool.
Require Import V.Base.ListAux V.Base.Radix V.Base.Matrix V.Base.NdArray V.Usid.SortOrder V.Usid.ToND.
Import ListNotations.

Theorem C01_toggle_involutive : forall (A : Type) (v : view A), view_toggle (view_toggle v) = v.
Proof. intros A [s o f l z r]. unfold view_toggle. simpl. now rewrite Bool.negb_involutive. Qed.
Print Assumptions C01_toggle_involutive.
