(** C01 -- N-D form equals the coordinate map defined by the ancillary matrices. *)
From Coq Require Import List Arith Lia Bool.
Require Import V.Base.ListAux V.Base.Radix V.Base.Matrix V.Base.NdArray V.Usid.SortOrder V.Usid.ToND V.Usid.ToNDProof V.Usid.Grid V.Usid.GridRoundTrip.
Import ListNotations.

(** Headline.  For ANY number of position / spectroscopic dimensions, ANY sizes >= 1 (size-1 dimensions included),
    ANY storage order of the dimensions on either side (orderp / orders are arbitrary permutations, fastest -> slowest),
    ANY element type A and ANY main-data contents, provided no side has more dimensions than points:
    reshape_to_n_dims succeeds, returns the labels in file order (identifiers 0 .. kp+ks-1), an array with one axis per
    dimension, and the element at the multi-index carried by row r and column c of the ancillary matrices is main[r][c]. *)
Theorem C01_to_nd_coordinate_map :
  forall (A : Type) (dflt : A) (szp orderp szs orders : list nat) (main : list (list A)) (pos : list (list nat)),
    wf_grid szp orderp -> wf_grid szs orders ->
    length szp <= prod (radices szp orderp) -> length szs <= prod (radices szs orders) ->
    0 < length szp -> 0 < length szs ->
    length main = prod (radices szp orderp) -> rect main (prod (radices szs orders)) ->
    transpose2d 0 pos = grid_spec szp orderp -> ncols pos = length szp ->
    let spec := grid_spec szs orders in
    let kp := length szp in let ks := length szs in
    exists a, to_nd dflt main pos spec false = Ok (a, seq 0 (kp + ks)) /\
      (forall r c, r < prod (radices szp orderp) -> c < prod (radices szs orders) ->
         nd_get dflt a (pos_row pos kp r ++ spec_col spec ks c) = nth c (nth r main []) dflt) /\
      length (nd_shape a) = kp + ks /\
      (forall r c, r < prod (radices szp orderp) -> c < prod (radices szs orders) ->
         inbounds (pos_row pos kp r ++ spec_col spec ks c) (nd_shape a)).
Proof. intros. apply grid_to_nd; assumption. Qed.
Print Assumptions C01_to_nd_coordinate_map.

(** Exact shape and labels: one axis per dimension, in file order, of that dimension's size. *)
Theorem C01_exact_shape :
  forall (A : Type) (dflt : A) (szp orderp szs orders : list nat) (main : list (list A)) (pos : list (list nat)),
    wf_grid szp orderp -> wf_grid szs orders ->
    length szp <= prod (radices szp orderp) -> length szs <= prod (radices szs orders) ->
    0 < length szp -> 0 < length szs ->
    length main = prod (radices szp orderp) -> rect main (prod (radices szs orders)) ->
    transpose2d 0 pos = grid_spec szp orderp -> ncols pos = length szp ->
    forall a labels, to_nd dflt main pos (grid_spec szs orders) false = Ok (a, labels) ->
      nd_shape a = szp ++ szs /\ labels = seq 0 (length szp + length szs).
Proof. intros. eapply grid_nd_shape; eassumption. Qed.
Print Assumptions C01_exact_shape.

(** ... and "the unique row r whose indices are (i_1..i_k)": every in-bounds coordinate vector is carried by exactly one row. *)
Theorem C01_unique_row_for_every_coordinate :
  forall sz order, wf_grid sz order -> forall ip, inbounds ip sz ->
  exists r, r < prod (radices sz order) /\
    map (fun d => nth r (grid_row sz order d) 0) (seq 0 (length sz)) = ip /\
    forall r', r' < prod (radices sz order) ->
      map (fun d => nth r' (grid_row sz order d) 0) (seq 0 (length sz)) = ip -> r' = r.
Proof. exact grid_rows_bijection. Qed.
Print Assumptions C01_unique_row_for_every_coordinate.

(** The same statement relative to the sort order the code computes, for arbitrary matrices (this is the lemma the
    grid theorem instantiates; it does not assume a regular grid, only consistency with the computed order). *)
Theorem C01_to_nd_relative_to_computed_order :
  forall (A : Type) (d : A) (main : list (list A)) (pos spec : list (list nat)),
    let N := length main in let M := ncols main in let kp := ncols pos in let ks := length spec in
    let so_p := get_sort_order (transpose2d 0 pos) in let so_s := get_sort_order spec in
    let dims_p := get_dimensionality (transpose2d 0 pos) so_p in let dims_s := get_dimensionality spec so_s in
    rect main M -> perm_of so_p kp -> perm_of so_s ks -> prod dims_p = N -> prod dims_s = M ->
    Forall (fun r => 0 < r) dims_p -> Forall (fun r => 0 < r) dims_s ->
    (forall r dd, r < N -> dd < kp -> nth dd (nth r pos []) 0 = nth (index_of dd so_p) (digits dims_p r) 0) ->
    (forall c e, c < M -> e < ks -> nth c (nth e spec []) 0 = nth (index_of e so_s) (digits dims_s c) 0) ->
    exists a, to_nd d main pos spec false = Ok (a, seq 0 (kp + ks)) /\
      (forall r c, r < N -> c < M -> nd_get d a (pos_row pos kp r ++ spec_col spec ks c) = nth c (nth r main []) d) /\
      length (nd_shape a) = kp + ks /\
      (forall r c, r < N -> c < M -> inbounds (pos_row pos kp r ++ spec_col spec ks c) (nd_shape a)).
Proof. intros. apply to_nd_coordinates; assumption. Qed.
Print Assumptions C01_to_nd_relative_to_computed_order.

(** Views of the dataset object.  The sorted view is the file-order view permuted by ONE permutation (v_order): labels,
    sizes and array alike; the same labelled coordinates address the same element in both views. *)
Theorem C01_sorted_view_is_one_permutation :
  forall (A : Type) (d : A) (main : list (list A)) (pos spec : list (list nat)) (sd : bool) (v : view A),
    view_init d main pos spec sd = Ok v ->
    let s := if v_sorted v then view_toggle v else v in          (* the file-order state *)
    let t := view_toggle s in                                    (* the sorted state *)
    view_labels t = map (fun i => nth i (view_labels s) 0) (v_order v) /\
    view_sizes t = map (fun i => nth i (view_sizes s) 0) (v_order v) /\
    nd_shape (view_form t) = map (fun i => nth i (nd_shape (view_form s)) 1) (v_order v) /\
    (forall j, inbounds j (nd_shape (view_form t)) ->
        nd_get d (view_form t) j = nd_get d (view_form s) (scatter (v_order v) j)).
Proof.
  intros A d main pos spec sd v H. unfold view_init in H.
  destruct (to_nd d main pos spec false) as [[orig labs]|e] eqn:E; [|discriminate]. injection H as <-.
  destruct sd; cbn; (split; [reflexivity|]; split; [reflexivity|]; split; [reflexivity|]);
    intros j Hj; apply nd_transpose_get; exact Hj.
Qed.
Print Assumptions C01_sorted_view_is_one_permutation.

Theorem C01_toggle_involutive : forall (A : Type) (v : view A), view_toggle (view_toggle v) = v.
Proof. intros A [s o f l z r]. unfold view_toggle. simpl. now rewrite Bool.negb_involutive. Qed.
Print Assumptions C01_toggle_involutive.

(** any number of toggles interleaved with (eager or lazy) reads: what a read returns depends only on the parity of toggles *)
Inductive vop := Toggle | Read (lazy : bool).
Definition vstep {A} (v : view A) (o : vop) : view A := match o with Toggle => view_toggle v | Read _ => v end.
Fixpoint toggles (ops : list vop) : nat := match ops with [] => 0 | Toggle :: r => S (toggles r) | Read _ :: r => toggles r end.

Theorem C01_reads_after_any_history :
  forall (A : Type) (ops : list vop) (v : view A),
    fold_left vstep ops v = if Nat.even (toggles ops) then v else view_toggle v.
Proof.
  intros A. induction ops as [|[|l] ops IH]; intros v; cbn [fold_left vstep toggles]; [reflexivity| |apply IH].
  rewrite IH. rewrite Nat.even_succ, <- Nat.negb_even.
  destruct (Nat.even (toggles ops)); simpl; [reflexivity| apply C01_toggle_involutive].
Qed.
Print Assumptions C01_reads_after_any_history.

(** non-vacuity: 2x3x4 positions stored in the cyclic order [2;0;1] (fastest dimension is file dimension 2), 2 spectral points *)
Example C01_example :
  let pos := grid_pos [2;3;4] [2;0;1] in
  let spec := grid_spec [2] [0] in
  let main := map (fun r => [2 * r; 2 * r + 1]) (seq 0 24) in
  match to_nd 0 main pos spec false with
  | Ok (a, labs) => nd_shape a = [2;3;4;2] /\ labs = [0;1;2;3] /\
                    nd_get 0 a [1;2;3;1] = nth 1 (nth (3 + 4 * 1 + 8 * 2) main []) 0
  | Err _ => False
  end.
Proof. vm_compute. repeat split. Qed.
