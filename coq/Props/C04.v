(** C04 -- checkpoints are crash-consistent; interrupted runs resume to the same result. *)
From Coq Require Import List Arith Lia Bool ZArith.
Require Import V.Base.ListAux V.Proc.Jobs V.Proc.Compute V.Proc.Crash.
Import ListNotations.

(** For ANY batches, ANY crash point (every prefix of the event list: result writes, flushes, per-slice marks) and BOTH ways
    of dying (graceful close: the volatile copy survives; kill: the bytes as of the last flush survive): no position is
    marked complete in the surviving state unless its final result is stored there. *)
Theorem C04_crash_consistent :
  forall (R : Type) (f : nat -> R) (batches : list (list nat)) (s0 : store) (i : nat) (m : mode),
    Inv f s0 -> Inv f (survive m (exec f (firstn i (trace batches)) (mkF s0 s0))).
Proof. intros. apply crash_consistent. assumption. Qed.
Print Assumptions C04_crash_consistent.

(** Any number of successive interruptions (each with its own batch limit, crash point and mode), then an
    uninterrupted compute(): only positions not marked complete are recomputed, completed ones are left alone, and the
    run ends with every position marked and holding the result of the map function -- the result of an uninterrupted run. *)
Theorem C04_resume_equals_uninterrupted :
  forall (R : Type) (f : nat -> R) (s0 : store) (cs : list (Z * nat * mode)) (maxpos : Z),
    Inv f s0 -> bits s0 -> (0 < maxpos)%Z ->
    let s := attempts f s0 cs in
    exists st, compute f (s_status s) (s_results s) maxpos = Some st /\
      st_log st = pending (s_status s) /\
      length (st_status st) = length (s_status s) /\
      (forall p, p < length (s_status s) -> nth p (st_status st) 0 = 1 /\ nth p (st_results st) None = Some (f p)).
Proof. intros. apply resume_equals_uninterrupted; assumption. Qed.
Print Assumptions C04_resume_equals_uninterrupted.

(** After a kill the surviving state is exactly what the last flush saw: every mark written before it is still there. *)
Theorem C04_kill_durability :
  forall (R : Type) (f : nat -> R) (evs1 evs2 : list ev) (st : fstate), ~ In EFlush evs2 ->
    survive Kill (exec f (evs1 ++ EFlush :: evs2) st) = vol (exec f (evs1 ++ [EFlush]) st).
Proof. intros. apply kill_durability. assumption. Qed.
Print Assumptions C04_kill_durability.

Example C04_example :
  let s0 := mkS [1;0;0;0;1;0] [Some 0; None; None; None; Some 4; None] in
  map (fun i => s_status (survive Kill (exec (fun p => p) (firstn i (trace [[1;2];[3;5]])) (mkF s0 s0)))) [0;2;3;6;7] =
  [[1;0;0;0;1;0]; [1;0;0;0;1;0]; [1;0;0;0;1;0]; [1;1;1;0;1;0]; [1;1;1;0;1;0]].
Proof. vm_compute. reflexivity. Qed.
