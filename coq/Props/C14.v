(** C14 -- Work is partitioned across ranks without gaps or overlap.
    This file holds only the property theorems; proofs live in Proc/Jobs.v and
    the arithmetic they are about is generated from process.py (Gen/Gen_Jobs.v). *)
From Coq Require Import ZArith List Lia.
Require Import V.Gen.Gen_Jobs V.Base.ListAux V.Proc.Jobs V.Proc.Sockets.
Import ListNotations.

(** For any number of ranks R >= 1 and any pending list (also shorter than R):
    the per-rank windows, in rank order, concatenate to the pending list. *)
Theorem C14_ranks_partition_pending :
  forall (A : Type) (jobs : list A) (R : nat), 0 < R ->
    concat (map (rank_jobs jobs R) (seq 0 R)) = jobs.
Proof. exact @ranks_partition_jobs. Qed.
Print Assumptions C14_ranks_partition_pending.

(** Integer form: ranges are ordered, inside [0,n], contiguous, start at 0 and end at n. *)
Theorem C14_ranges :
  forall n R : Z, (0 < R)%Z -> (0 <= n)%Z ->
    rank_start n R 0 = 0%Z /\ rank_end n R (R - 1) = n /\
    (forall r, (0 <= r < R)%Z -> (0 <= rank_start n R r <= rank_end n R r)%Z /\ (rank_end n R r <= n)%Z) /\
    (forall r, (0 <= r)%Z -> (r < R - 1)%Z -> rank_end n R r = rank_start n R (r + 1)).
Proof.
  intros n R HR Hn.
  split; [apply ranges_first|]. split; [apply ranges_last|]. split.
  - intros r Hr. pose proof (ranges_ordered n R r HR Hn Hr). tauto.
  - intros r H0 H1. apply ranges_contiguous; assumption.
Qed.
Print Assumptions C14_ranges.

(** Each rank's batches are consecutive windows of its own range, non-empty and
    no longer than the batch limit; the loop terminates for every limit >= 1. *)
Theorem C14_batches_within_range :
  forall (maxpos start rank_end e0 : Z), (0 < maxpos)%Z -> (start <= rank_end)%Z ->
  exists bs, batches (S (Z.to_nat (rank_end - start))) start rank_end maxpos e0 = Some bs /\
             chain bs start rank_end /\
             Forall (fun b => (fst b < snd b <= fst b + maxpos)%Z /\ (start <= fst b)%Z /\ (snd b <= rank_end)%Z) bs.
Proof.
  intros maxpos start rank_end e0 Hm Hs.
  destruct (batches_spec maxpos rank_end Hm (S (Z.to_nat (rank_end - start))) start e0 Hs ltac:(lia))
    as (bs & Hb & Hc & Hall).
  exists bs. split; [exact Hb|]. split; [exact Hc|].
  assert (Hlt : Forall (fun w => (fst w < snd w)%Z) bs).
  { eapply Forall_impl; [|exact Hall]. simpl. intros; lia. }
  destruct (chain_bounds bs _ _ Hc Hlt) as [_ Hb2].
  rewrite Forall_forall in *. intros w Hw. specialize (Hall w Hw). specialize (Hb2 w Hw). lia.
Qed.
Print Assumptions C14_batches_within_range.

(** Ranks sharing a processor name are grouped under the lowest-numbered rank of that name. *)
Theorem C14_socket_master_min :
  forall (names : list nat) (r : nat), r < length names ->
    let m := nth r (group_ranks_by_socket names) 0 in
    m <= r /\ nth m names 0 = nth r names 0 /\ forall q, q < m -> nth q names 0 <> nth r names 0.
Proof. exact socket_master_min. Qed.
Print Assumptions C14_socket_master_min.

(** Non-vacuity: 3 ranks, 7 pending positions (n < R is covered by the theorem too). *)
Example C14_example : map (rank_jobs [10;11;12;13;14;15;16] 3) (seq 0 3) = [[10;11];[12;13];[14;15;16]]
  /\ map (rank_jobs [5;9] 4) (seq 0 4) = [[];[];[];[5;9]]
  /\ group_ranks_by_socket [7;3;7;3;5] = [0;1;0;1;4].
Proof. repeat split; vm_compute; reflexivity. Qed.
