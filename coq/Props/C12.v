(** C12 -- reducing named dimensions equals the axis reduction, in memory and on file. *)
From Coq Require Import List Arith Lia Bool ZArith.
Require Import V.Base.ListAux V.Base.Radix V.Base.Matrix V.Base.NdArray V.Usid.SortOrder V.Usid.ToND V.Usid.ToNDProof V.Usid.FromND
               V.Usid.Grid V.Usid.SelEnum V.Usid.Reduce V.Usid.ReduceProof V.Usid.ReduceGrid V.Usid.ReduceFile V.Usid.ReduceSqueezed V.Usid.ReduceVals V.Usid.UnitValues V.Usid.ReduceMoments V.Usid.ReduceMomentsProof.
Import ListNotations.

(** The value at a kept index is the reduction of exactly the elements of the fibre over it ... *)
Theorem C12_reduction_is_fibrewise :
  forall (A : Type) (d : A) (f : list A -> A) (a : nd A) (axes j : list nat),
  let flags := ax_flags (length (nd_shape a)) axes in
  inbounds j (part false flags (nd_shape a)) ->
  nd_get d (nd_reduce d f a axes) j = f (map (fun i => nd_get d a (merge flags j i)) (all_idx (part true flags (nd_shape a)))).
Proof. exact @nd_reduce_get. Qed.
Print Assumptions C12_reduction_is_fibrewise.

(** ... and every source element (in-bounds full index) belongs to the fibre over its own remaining coordinates. *)
Theorem C12_every_element_in_its_fibre :
  forall (shape axes idx : list nat),
  let flags := ax_flags (length shape) axes in
  Forall (fun s => 0 < s) shape -> inbounds idx shape ->
  In idx (map (merge flags (part false flags idx)) (all_idx (part true flags shape))) /\
  inbounds (part false flags idx) (part false flags shape).
Proof. exact fibre_membership. Qed.
Print Assumptions C12_every_element_in_its_fibre.

(** the fibre contains nothing else: an index of the fibre over j has kept part j and reduced part the enumerated one *)
Theorem C12_fibre_is_exact :
  forall flags j i, length j = length (filter negb flags) -> length i = length (filter (fun b => b) flags) ->
  part false flags (merge flags j i) = j /\ part true flags (merge flags j i) = i.
Proof. exact part_merge. Qed.
Print Assumptions C12_fibre_is_exact.

(** In memory, on a grid dataset (C01's hypotheses): the axis of a dimension name is its number in file order, and the
    array that is reduced is the one whose element at the coordinates carried by row r / column c is main[r][c]. *)
Theorem C12_reduce_in_memory :
  forall (szp orderp szs orders : list nat) (main : list (list Z)) (pos : list (list nat)) (dims : list nat) (f : redfn),
    wf_grid szp orderp -> wf_grid szs orders ->
    length szp <= prod (radices szp orderp) -> length szs <= prod (radices szs orders) ->
    0 < length szp -> 0 < length szs ->
    length main = prod (radices szp orderp) -> rect main (prod (radices szs orders)) ->
    transpose2d 0 pos = grid_spec szp orderp -> ncols pos = length szp ->
    Forall (fun dm => dm < length szp + length szs) dims ->
    let spec := grid_spec szs orders in
    exists a, reduce_mem main pos spec dims f = Ok (nd_reduce 0%Z (apply_fn f) a dims) /\
      (forall r c, r < prod (radices szp orderp) -> c < prod (radices szs orders) ->
         nd_get 0%Z a (pos_row pos (length szp) r ++ spec_col spec (length szs) c) = nth c (nth r main []) 0%Z) /\
      length (nd_shape a) = length szp + length szs.
Proof.
  intros szp orderp szs orders main pos dims f H1 H2 H3 H4 H5 H6 H7 H8 H9 H10 Hd spec. subst spec.
  destruct (grid_to_nd 0%Z szp orderp szs orders H1 H2 H3 H4 H5 H6 main pos H7 H8 H9 H10) as (a & Ha & Hget & Hlen & _).
  exists a. split; [|split; assumption].
  unfold reduce_mem. rewrite Ha.
  assert (Hall : forallb (fun dm => existsb (Nat.eqb dm) (seq 0 (length szp + length szs))) dims = true).
  { apply forallb_forall. intros dm Hin. rewrite Forall_forall in Hd. apply existsb_exists. exists dm. split; [apply in_seq; specialize (Hd dm Hin); lia|apply Nat.eqb_refl]. }
  rewrite Hall. cbn [negb]. f_equal. f_equal.
  rewrite <- (map_id dims) at 2. apply map_ext_in. intros dm Hin. rewrite Forall_forall in Hd. specialize (Hd dm Hin).
  pose proof (index_of_nth (seq 0 (length szp + length szs)) (seq_NoDup _ 0) dm ltac:(now rewrite seq_length)) as Hi.
  rewrite seq_nth in Hi by exact Hd. exact Hi.
Qed.
Print Assumptions C12_reduce_in_memory.

(** On file: the columns (rows) of a reduced side that are kept are those whose reduced coordinates are all 0; there are
    prod(kept sizes) of them, and the j-th one carries, along the kept dimensions, the digits of j in the mixed radix of
    the kept sizes in the same relative order -- every remaining coordinate combination exactly once. *)
Theorem C12_kept_columns_count :
  forall sz so red, wf_grid sz so ->
  length (reduced_cols_digits sz so red) = prod (map (fun d => if is_ax red d then 1 else nth d sz 1) so).
Proof. exact reduced_cols_count. Qed.
Print Assumptions C12_kept_columns_count.

Theorem C12_kept_columns_coordinates :
  forall sz so red j p, wf_grid sz so ->
  let lens := map (fun d => if is_ax red d then 1 else nth d sz 1) so in
  j < prod lens -> p < length so ->
  nth p (digits (radices sz so) (nth j (reduced_cols_digits sz so red) 0)) 0 =
    if is_ax red (nth p so 0) then 0 else nth p (digits lens j) 0.
Proof. exact reduced_cols_coordinates. Qed.
Print Assumptions C12_kept_columns_coordinates.

(** write_reduced_anc_dsets on a grid matrix: the columns it keeps (matrix level, as the code computes them) are the ones
    the digit-level theorems above talk about ... *)
Theorem C12_kept_columns_matrix_level :
  forall sz so red, wf_grid sz so -> length sz <= prod (radices sz so) -> 0 < length sz -> Forall (fun d => d < length sz) red ->
  reduced_cols (grid_spec sz so) red = reduced_cols_digits sz so red.
Proof. exact reduced_cols_grid. Qed.
Print Assumptions C12_kept_columns_matrix_level.

(** ... and the reduced ancillary matrix is again the matrix of a regular grid: the kept dimensions (file order) with their
    original sizes, in the same relative storage order. *)
Theorem C12_reduced_ancillaries_are_a_grid :
  forall sz so red, wf_grid sz so -> length sz <= prod (radices sz so) -> 0 < length sz ->
  Forall (fun d => d < length sz) red -> kept (length sz) red <> [] ->
  write_reduced (grid_spec sz so) red = (grid_spec (red_sz sz red) (red_so sz so red), kept (length sz) red) /\
  wf_grid (red_sz sz red) (red_so sz so red).
Proof. intros sz so red H1 H2 H3 H4 H5. split; [now apply write_reduced_grid|now apply wf']. Qed.
Print Assumptions C12_reduced_ancillaries_are_a_grid.

(** Written back, on grid datasets in ANY storage order, ANY non-empty subset of dimension names that leaves at least one
    dimension on either side (and not more dimensions than points after the reduction): the call succeeds, the written
    matrix has prod(kept position sizes) x prod(kept spectroscopic sizes) elements, and its element (r, c) is the value of
    the reduced N-D array at the coordinates carried by row r / column c of the NEW ancillary matrices -- which by
    C12_reduction_is_fibrewise is f of exactly the source elements sharing those remaining coordinates. *)
Theorem C12_written_back_coordinates :
  forall (szp sop szs sos : list nat) (main : list (list Z)) (pos : list (list nat)) (dims : list nat) (f : redfn),
  wf_grid szp sop -> wf_grid szs sos ->
  length szp <= prod (radices szp sop) -> length szs <= prod (radices szs sos) -> 0 < length szp -> 0 < length szs ->
  length main = prod (radices szp sop) -> rect main (prod (radices szs sos)) ->
  transpose2d 0 pos = grid_spec szp sop -> ncols pos = length szp ->
  Forall (fun dm => dm < length szp + length szs) dims ->
  let kp := length szp in
  let pred := filter (fun dm => Nat.ltb dm kp) dims in
  let sred := map (fun dm => dm - kp) (filter (fun dm => negb (Nat.ltb dm kp)) dims) in
  let szp' := red_sz szp pred in let sop' := red_so szp sop pred in
  let szs' := red_sz szs sred in let sos' := red_so szs sos sred in
  kept (length szp) pred <> [] -> kept (length szs) sred <> [] ->
  length szp' <= prod (radices szp' sop') -> length szs' <= prod (radices szs' sos') ->
  let N' := prod (radices szp' sop') in let M' := prod (radices szs' sos') in
  exists a data pside sside,
    to_nd 0%Z main pos (grid_spec szs sos) false = Ok (a, seq 0 (length szp + length szs)) /\ nd_shape a = szp ++ szs /\
    reduce_mem main pos (grid_spec szs sos) dims f = Ok (nd_reduce 0%Z (apply_fn f) a dims) /\
    reduce_file main pos (grid_spec szs sos) dims f = Ok (N', M', data, pside, sside) /\ length data = N' * M' /\
    forall r c, r < N' -> c < M' ->
      nth (r * M' + c) data 0%Z
      = nd_get 0%Z (nd_reduce 0%Z (apply_fn f) a dims)
               (pos_row (transpose2d 0 (grid_spec szp' sop')) (length szp') r ++ spec_col (grid_spec szs' sos') (length szs') c).
Proof. intros. apply reduce_file_coordinates; assumption. Qed.
Print Assumptions C12_written_back_coordinates.

(** The same when EVERY position dimension is reduced (at least two spectroscopic dimensions left): the Position side becomes the
    1 x 1 placeholder labelled with the next free dimension number, reshape_from_n_dims takes its squeezed path, and column c of the
    single row is the reduced value at the coordinates carried by column c of the NEW spectroscopic matrix. *)
Theorem C12_all_position_dimensions_reduced :
  forall (szp sop szs sos : list nat) (main : list (list Z)) (pos : list (list nat)) (dims : list nat) (f : redfn),
  wf_grid szp sop -> wf_grid szs sos ->
  length szp <= prod (radices szp sop) -> length szs <= prod (radices szs sos) -> 0 < length szp -> 0 < length szs ->
  length main = prod (radices szp sop) -> rect main (prod (radices szs sos)) ->
  transpose2d 0 pos = grid_spec szp sop -> ncols pos = length szp ->
  Forall (fun dm => dm < length szp + length szs) dims ->
  let kp := length szp in
  let pred := filter (fun dm => Nat.ltb dm kp) dims in
  let sred := map (fun dm => dm - kp) (filter (fun dm => negb (Nat.ltb dm kp)) dims) in
  let szs' := red_sz szs sred in let sos' := red_so szs sos sred in
  kept (length szp) pred = [] -> kept (length szs) sred <> [] ->
  length szs' <= prod (radices szs' sos') -> 2 <= length szs' ->
  let M' := prod (radices szs' sos') in
  exists a data sside,
    to_nd 0%Z main pos (grid_spec szs sos) false = Ok (a, seq 0 (length szp + length szs)) /\ nd_shape a = szp ++ szs /\
    reduce_mem main pos (grid_spec szs sos) dims f = Ok (nd_reduce 0%Z (apply_fn f) a dims) /\
    reduce_file main pos (grid_spec szs sos) dims f = Ok (1, M', data, RWritten [kp] [[0]], sside) /\ length data = M' /\
    forall c, c < M' ->
      nth c data 0%Z = nd_get 0%Z (nd_reduce 0%Z (apply_fn f) a dims) (spec_col (grid_spec szs' sos') (length szs') c).
Proof. intros szp sop szs sos. intros. apply (reduce_file_all_positions szp sop szs sos); assumption. Qed.
Print Assumptions C12_all_position_dimensions_reduced.

(** ... and when EVERY spectroscopic dimension is reduced (at least two position dimensions left). *)
Theorem C12_all_spectroscopic_dimensions_reduced :
  forall (szp sop szs sos : list nat) (main : list (list Z)) (pos : list (list nat)) (dims : list nat) (f : redfn),
  wf_grid szp sop -> wf_grid szs sos ->
  length szp <= prod (radices szp sop) -> length szs <= prod (radices szs sos) -> 0 < length szp -> 0 < length szs ->
  length main = prod (radices szp sop) -> rect main (prod (radices szs sos)) ->
  transpose2d 0 pos = grid_spec szp sop -> ncols pos = length szp ->
  Forall (fun dm => dm < length szp + length szs) dims ->
  let kp := length szp in
  let pred := filter (fun dm => Nat.ltb dm kp) dims in
  let sred := map (fun dm => dm - kp) (filter (fun dm => negb (Nat.ltb dm kp)) dims) in
  let szp' := red_sz szp pred in let sop' := red_so szp sop pred in
  kept (length szp) pred <> [] -> kept (length szs) sred = [] ->
  length szp' <= prod (radices szp' sop') -> 2 <= length szp' ->
  let N' := prod (radices szp' sop') in
  exists a data pside,
    to_nd 0%Z main pos (grid_spec szs sos) false = Ok (a, seq 0 (length szp + length szs)) /\ nd_shape a = szp ++ szs /\
    reduce_mem main pos (grid_spec szs sos) dims f = Ok (nd_reduce 0%Z (apply_fn f) a dims) /\
    reduce_file main pos (grid_spec szs sos) dims f = Ok (N', 1, data, pside, RWritten [kp + length szs] [[0]]) /\ length data = N' /\
    forall r, r < N' ->
      nth r data 0%Z = nd_get 0%Z (nd_reduce 0%Z (apply_fn f) a dims) (pos_row (transpose2d 0 (grid_spec szp' sop')) (length szp') r).
Proof. intros szp sop szs sos. intros. apply (reduce_file_all_spectroscopic szp sop szs sos); assumption. Qed.
Print Assumptions C12_all_spectroscopic_dimensions_reduced.

(** non-vacuity of the two theorems: 2 x 2 positions x (2 x 3) spectra *)
Example C12_example_all_positions :
  let main := [[0; 1; 2; 3; 4; 5]; [6; 7; 8; 9; 10; 11]; [12; 13; 14; 15; 16; 17]; [18; 19; 20; 21; 22; 23]]%Z in
  let pos := [[0; 0]; [1; 0]; [0; 1]; [1; 1]] in
  let spec := grid_spec [2; 3] [0; 1] in
  transpose2d 0 pos = grid_spec [2; 2] [0; 1] /\
  reduce_file main pos spec [0; 1] RSum = Ok (1, 6, [36; 40; 44; 48; 52; 56]%Z, RWritten [2] [[0]], RReused) /\
  reduce_file main pos spec [2; 3] RSum = Ok (4, 1, [15; 51; 87; 123]%Z, RReused, RWritten [4] [[0]]) /\
  kept 2 (filter (fun dm => Nat.ltb dm 2) [0; 1]) = [] /\ kept 2 (map (fun dm => dm - 2) (filter (fun dm => negb (Nat.ltb dm 2)) [0; 1])) <> [].
Proof. cbv zeta. repeat split; try (vm_compute; reflexivity). vm_compute. discriminate. Qed.

(** The VALUES matrix of a rebuilt side (write_reduced_anc_dsets keeps the same rows and columns of it as of the index matrix):
    every entry is the original reference value, of the ORIGINAL dimension, of the index standing at the same place of the new
    index matrix -- for any matrices whatsoever that are related entry by entry through a value function. *)
Theorem C12_rebuilt_values_follow_the_rebuilt_indices :
  forall (inds : list (list nat)) (vals : list (list Z)) (red : list nat) (vf : nat -> nat -> Z),
  (forall d c, d < length inds -> c < ncols inds -> nth c (nth d vals []) 0%Z = vf d (nth c (nth d inds []) 0)) ->
  forallb (is_ax red) (seq 0 (length inds)) = false ->
  let ri := fst (write_reduced inds red) in let keep := snd (write_reduced inds red) in
  let rv := write_reduced_vals inds vals red in
  length rv = length keep /\
  forall i j, i < length keep -> j < length (reduced_cols inds red) ->
    nth j (nth i rv []) 0%Z = vf (nth i keep 0) (nth j (nth i ri []) 0).
Proof. exact reduced_vals_pointwise. Qed.
Print Assumptions C12_rebuilt_values_follow_the_rebuilt_indices.

(** On a regular grid in any storage order with any reference values: what get_unit_values reports for the rebuilt side is, for
    every kept dimension, exactly its ORIGINAL unit values in index order ("reduced sides rebuilt with the original unit values"). *)
Theorem C12_rebuilt_side_reports_the_original_unit_values :
  forall (sz so red : list nat) (f : nat -> nat -> Z),
  wf_grid sz so -> length sz <= prod (radices sz so) -> 0 < length sz -> Forall (fun d => d < length sz) red -> kept (length sz) red <> [] ->
  let vals := map (fun d => map (f d) (grid_row sz so d)) (seq 0 (length sz)) in
  let keep := kept (length sz) red in
  get_unit_values 0%Z (grid_spec (red_sz sz red) (red_so sz so red)) (write_reduced_vals (grid_spec sz so) vals red) (Some true) (length (red_sz sz red))
  = Ok (map (fun i => map (f (nth i keep 0)) (seq 0 (nth (nth i keep 0) sz 1))) (seq 0 (length keep))).
Proof. intros. now apply reduced_unit_values. Qed.
Print Assumptions C12_rebuilt_side_reports_the_original_unit_values.

(** mean / std.  Every axis mean or standard deviation is a function of three exact numbers per kept index: the sum S, the sum
    of squares Q and the count c of the fibre.  The model reduces the array of (x, x*x, 1) with componentwise addition; at every
    kept index the result is (sum, sum of squares) of exactly the fibre of [C12_reduction_is_fibrewise] and c is the product of the
    reduced sizes.  mean = S / c and variance = (c Q - S^2) / c^2 are then exact rationals; the correspondence compares them with
    the floating-point numbers the library returned / wrote, inside the relative tolerance stated in [mean_close] / [std_close]. *)
Theorem C12_moments_are_fibrewise :
  forall (a : nd Z) (axes j : list nat),
  let flags := ax_flags (length (nd_shape a)) axes in
  let fibre := map (fun i => nd_get 0%Z a (merge flags j i)) (all_idx (part true flags (nd_shape a))) in
  inbounds j (part false flags (nd_shape a)) ->
  nd_get (lift 0%Z) (nd_reduce (lift 0%Z) mom_sum (nd_lift a) axes) j
  = (zsum fibre, zsum (map (fun x => x * x)%Z fibre), prod (part true flags (nd_shape a))).
Proof. exact moments_get. Qed.
Print Assumptions C12_moments_are_fibrewise.

(** the count is positive (mean and variance are defined) whenever every axis is non-empty *)
Theorem C12_moments_count_positive : forall l : list nat, Forall (fun s => 0 < s) l -> 0 < prod l.
Proof. exact prod_pos. Qed.
Print Assumptions C12_moments_count_positive.

(** (c Q - S^2) / c^2 IS the population variance: c (c Q - S^2) = sum over the fibre of (c x - S)^2, for every list *)
Theorem C12_variance_from_moments :
  forall l : list Z,
  let c := Z.of_nat (length l) in let s := zsum l in let q := zsum (map (fun x => x * x)%Z l) in
  zsum (map (fun x => (c * x - s) * (c * x - s))%Z l) = (c * (c * q - s * s))%Z.
Proof. exact variance_from_moments. Qed.
Print Assumptions C12_variance_from_moments.

Theorem C12_variance_numerator_nonneg :
  forall l : list Z, (0 <= Z.of_nat (length l) * zsum (map (fun x => x * x)%Z l) - zsum l * zsum l)%Z.
Proof. exact variance_numerator_nonneg. Qed.
Print Assumptions C12_variance_numerator_nonneg.

(** what the comparison accepts: |n/d - S/c| <= 2^-16 (|S|/c + 1), written without division *)
Theorem C12_mean_comparison_sound :
  forall (s q : Z) (c : nat) (n d : Z),
  mean_close (s, q, c) (n, d) = true ->
  (0 < d /\ 0 < Z.of_nat c /\ Z.abs (n * Z.of_nat c - s * d) * 65536 <= (Z.abs s + Z.of_nat c) * d)%Z.
Proof. exact mean_close_sound. Qed.
Print Assumptions C12_mean_comparison_sound.

(** on a grid dataset the moments are taken of the array of C01 (element at the coordinates of row r / column c = main[r][c])
    along the axes whose numbers are the named dimensions *)
Theorem C12_mean_std_in_memory :
  forall (szp orderp szs orders : list nat) (main : list (list Z)) (pos : list (list nat)) (dims : list nat),
    wf_grid szp orderp -> wf_grid szs orders ->
    length szp <= prod (radices szp orderp) -> length szs <= prod (radices szs orders) ->
    0 < length szp -> 0 < length szs ->
    length main = prod (radices szp orderp) -> rect main (prod (radices szs orders)) ->
    transpose2d 0 pos = grid_spec szp orderp -> ncols pos = length szp ->
    Forall (fun dm => dm < length szp + length szs) dims ->
    let spec := grid_spec szs orders in
    exists a, reduce_mem_moments main pos spec dims = Ok (nd_reduce (lift 0%Z) mom_sum (nd_lift a) dims) /\
      (forall r c, r < prod (radices szp orderp) -> c < prod (radices szs orders) ->
         nd_get 0%Z a (pos_row pos (length szp) r ++ spec_col spec (length szs) c) = nth c (nth r main []) 0%Z) /\
      length (nd_shape a) = length szp + length szs.
Proof. exact reduce_mem_moments_grid. Qed.
Print Assumptions C12_mean_std_in_memory.

(** non-vacuity: a 2 x 3 array reduced over its second axis: sums 3 and 12, sums of squares 5 and 50, three elements each;
    mean 1 (= 3/3) and 4, variance (3*5 - 9)/9 = 2/3; 0.816496580927726 (its square root as a binary fraction) is accepted,
    0.82 is not *)
Example C12_example_moments :
  nd_data (nd_reduce (lift 0%Z) mom_sum (nd_lift (mkNd [2; 3] [0; 1; 2; 3; 4; 5]%Z)) [1]) = [(3%Z, 5%Z, 3); (12%Z, 50%Z, 3)]
  /\ mean_close (3%Z, 5%Z, 3) (1, 1)%Z = true /\ mean_close (3%Z, 5%Z, 3) (9, 8)%Z = false
  /\ std_close (3%Z, 5%Z, 3) (7354315163868475, 9007199254740992)%Z = true
  /\ std_close (3%Z, 5%Z, 3) (82, 100)%Z = false.
Proof. vm_compute. repeat split; reflexivity. Qed.

(** With fewer than two axes left the call raises rather than writing a dataset that is not a Main dataset. *)
Theorem C12_raises_when_fewer_than_two_axes_remain :
  forall main pos spec dims f red,
  reduce_mem main pos spec dims f = Ok red -> length (nd_shape red) < 2 -> exists e, reduce_file main pos spec dims f = Err e.
Proof. exact reduce_file_needs_two_axes. Qed.
Print Assumptions C12_raises_when_fewer_than_two_axes_remain.

(** non-vacuity: 2 x 3 positions (second fastest) x 2 spectra; sum over position dimension 0 *)
Example C12_example :
  let main := [[0; 1]; [2; 3]; [4; 5]; [6; 7]; [8; 9]; [10; 11]]%Z in
  let pos := [[0; 0]; [0; 1]; [0; 2]; [1; 0]; [1; 1]; [1; 2]] in
  let spec := [[0; 1]] in
  (exists red, reduce_mem main pos spec [0] RSum = Ok red /\ nd_shape red = [3; 2] /\ nd_data red = [6; 8; 10; 12; 14; 16]%Z) /\
  reduce_file main pos spec [0] RSum = Ok (3, 2, [6; 8; 10; 12; 14; 16]%Z, RWritten [1] [[0]; [1]; [2]], RReused) /\
  reduced_cols_digits [2; 3] [1; 0] [0] = [0; 1; 2].
Proof. cbv zeta. split; [eexists; split; [vm_compute; reflexivity|split; reflexivity]|split; vm_compute; reflexivity]. Qed.
