(** C10 -- flattening an N-D array back to 2D inverts the N-D reshape. *)
From Coq Require Import List Arith Lia Bool.
Require Import V.Base.ListAux V.Base.CorrAux V.Base.Radix V.Base.Matrix V.Base.NdArray V.Usid.SortOrder V.Usid.ToND V.Usid.ToNDProof V.Usid.FromND
               V.Usid.Grid V.Usid.FromNDProof V.Usid.GridRoundTrip V.Usid.GridFromNd V.Usid.FromNDOneSided V.Usid.FromNDSqueezed.
Import ListNotations.

(** Headline.  For ANY number of position / spectroscopic dimensions, ANY sizes >= 1, ANY storage order on either side, ANY
    element type and contents (not more dimensions than points on a side): flattening the N-D form produced by
    reshape_to_n_dims with the same two index matrices returns the original 2-D data, rows x columns, in the same order. *)
Theorem C10_round_trip_on_grids :
  forall (A : Type) (dflt : A) (szp orderp szs orders : list nat) (main : list (list A)) (pos : list (list nat)),
    wf_grid szp orderp -> wf_grid szs orders ->
    length szp <= prod (radices szp orderp) -> length szs <= prod (radices szs orders) ->
    0 < length szp -> 0 < length szs ->
    length main = prod (radices szp orderp) -> rect main (prod (radices szs orders)) ->
    transpose2d 0 pos = grid_spec szp orderp -> ncols pos = length szp ->
    let spec := grid_spec szs orders in
    forall a labels, to_nd dflt main pos spec false = Ok (a, labels) ->
      from_nd dflt a (Some pos) (Some spec) = Ok (prod (radices szp orderp), prod (radices szs orders), concat main).
Proof. intros. eapply grid_round_trip; eassumption. Qed.
Print Assumptions C10_round_trip_on_grids.

(** The same relative to the sort orders the code computes, for arbitrary matrices consistent with them. *)
Theorem C10_round_trip_relative_to_computed_order :
  forall (A : Type) (d : A) (main : list (list A)) (pos spec : list (list nat)),
    let N := length main in let M := ncols main in let kp := ncols pos in let ks := length spec in
    let so_p := get_sort_order (transpose2d 0 pos) in let so_s := get_sort_order spec in
    let dims_p := get_dimensionality (transpose2d 0 pos) so_p in let dims_s := get_dimensionality spec so_s in
    rect main M -> perm_of so_p kp -> perm_of so_s ks -> prod dims_p = N -> prod dims_s = M ->
    Forall (fun r => 0 < r) dims_p -> Forall (fun r => 0 < r) dims_s ->
    length pos = N -> ncols spec = M -> length (orient (transpose2d 0 pos)) = kp -> length (orient spec) = ks ->
    0 < kp -> 0 < ks ->
    forall a labels, to_nd d main pos spec false = Ok (a, labels) -> from_nd d a (Some pos) (Some spec) = Ok (N, M, concat main).
Proof. intros. eapply from_nd_inverts_to_nd; eassumption. Qed.
Print Assumptions C10_round_trip_relative_to_computed_order.

(** The algebraic heart: transposing by the inverse of a permutation and then by the permutation is the identity. *)
Theorem C10_transpose_round_trip :
  forall (A : Type) (d : A) (a0 : nd A) (L : list nat) (k : nat),
  perm_of L k -> length (nd_shape a0) = k -> Forall (fun s => 0 < s) (nd_shape a0) -> length (nd_data a0) = prod (nd_shape a0) ->
  nd_transpose d (nd_transpose d a0 (inv_perm L)) L = a0.
Proof. exact @nd_transpose_roundtrip. Qed.
Print Assumptions C10_transpose_round_trip.

(** One index matrix supplied (the other side is built from the N-D shape; remaining axes of size >= 2): the call equals
    the two-sided call with the C-order grid of the remaining axes, so the flattened matrix has the same coordinate map:
    columns (rows) enumerate the remaining axes with the LAST axis fastest. *)
Theorem C10_position_matrix_only :
  forall (A : Type) (d : A) (szp sop steps : list nat) (pos : list (list nat)) (b : nd A),
  wf_grid szp sop -> length szp < prod (radices szp sop) -> 0 < length szp ->
  Forall (fun s => 2 <= s) steps -> 0 < length steps ->
  transpose2d 0 pos = grid_spec szp sop -> ncols pos = length szp ->
  nd_shape b = szp ++ steps -> length (nd_data b) = prod (nd_shape b) ->
  let scorder := grid_spec steps (rev (seq 0 (length steps))) in
  let N := prod (radices szp sop) in let M := prod steps in
  from_nd d b (Some pos) None = from_nd d b (Some pos) (Some scorder) /\
  exists data, from_nd d b (Some pos) None = Ok (N, M, data) /\ length data = N * M /\
    forall r c, r < N -> c < M -> nth (r * M + c) data d = nd_get d b (pos_row pos (length szp) r ++ spec_col scorder (length steps) c).
Proof.
  intros A d szp sop steps pos b H1 H2 H3 H4 H5 H6 H7 H8 H9. cbv zeta. split.
  - now apply (pos_only_eq_two_sided d szp sop).
  - now apply (pos_only_coordinates d szp sop).
Qed.
Print Assumptions C10_position_matrix_only.

Theorem C10_spectroscopic_matrix_only :
  forall (A : Type) (d : A) (szs sos steps : list nat) (b : nd A),
  wf_grid szs sos -> length szs <= prod (radices szs sos) -> 0 < length szs ->
  Forall (fun s => 2 <= s) steps -> 0 < length steps ->
  nd_shape b = steps ++ szs -> length (nd_data b) = prod (nd_shape b) ->
  let spec := grid_spec szs sos in
  let pcorder := transpose2d 0 (grid_spec steps (rev (seq 0 (length steps)))) in
  let N := prod steps in let M := prod (radices szs sos) in
  from_nd d b None (Some spec) = from_nd d b (Some pcorder) (Some spec) /\
  exists data, from_nd d b None (Some spec) = Ok (N, M, data) /\ length data = N * M /\
    forall r c, r < N -> c < M -> nth (r * M + c) data d = nd_get d b (pos_row pcorder (length steps) r ++ spec_col spec (length szs) c).
Proof.
  intros A d szs sos steps b H1 H2 H3 H4 H5 H6 H7. cbv zeta. split.
  - now apply (spec_only_eq_two_sided d szs sos).
  - now apply (spec_only_coordinates d szs sos).
Qed.
Print Assumptions C10_spectroscopic_matrix_only.

(** The squeezed path: one side is the 1 x 1 placeholder whose dummy axis is ABSENT from the N-D array (what USIDataset.reduce
    hands over after reducing a whole side).  The other side being a regular grid in any storage order with at least two
    dimensions, the flattened vector is laid out by that grid alone. *)
Theorem C10_squeezed_position_side :
  forall (A : Type) (d : A) (szs sos : list nat) (b : nd A),
  wf_grid szs sos -> length szs <= prod (radices szs sos) -> 2 <= length szs -> nd_shape b = szs ->
  let spec := grid_spec szs sos in let M := prod (radices szs sos) in
  exists data, from_nd d b (Some [[0]]) (Some spec) = Ok (1, M, data) /\ length data = M /\
    forall c, c < M -> nth c data d = nd_get d b (spec_col spec (length szs) c).
Proof. intros A d szs sos b H1 H2 H3 H4. cbv zeta. now apply (squeezed_pos_coordinates d szs sos). Qed.
Print Assumptions C10_squeezed_position_side.

Theorem C10_squeezed_spectroscopic_side :
  forall (A : Type) (d : A) (szp sop : list nat) (pos : list (list nat)) (b : nd A),
  wf_grid szp sop -> length szp <= prod (radices szp sop) -> 2 <= length szp ->
  transpose2d 0 pos = grid_spec szp sop -> ncols pos = length szp -> nd_shape b = szp ->
  let N := prod (radices szp sop) in
  exists data, from_nd d b (Some pos) (Some [[0]]) = Ok (N, 1, data) /\ length data = N /\
    forall r, r < N -> nth r data d = nd_get d b (pos_row pos (length szp) r).
Proof. intros A d szp sop pos b H1 H2 H3 H4 H5 H6. cbv zeta. now apply (squeezed_spec_coordinates d szp sop). Qed.
Print Assumptions C10_squeezed_spectroscopic_side.

(** Incompatible requests are refused: no matrix at all; a total size that does not match; with one axis per dimension,
    an N-D shape that differs from the sizes the matrices show (e.g. permuted axes). *)
Theorem C10_no_matrix_is_rejected : forall (A : Type) (d : A) (a : nd A), from_nd d a None None = Err ValueE.
Proof. reflexivity. Qed.
Print Assumptions C10_no_matrix_is_rejected.

Theorem C10_size_mismatch_rejected :
  forall (A : Type) (d : A) (a : nd A) (p s : list (list nat)),
  2 <= length (nd_shape a) -> length p * ncols s <> prod (nd_shape a) -> from_nd d a (Some p) (Some s) = Err ValueE.
Proof.
  intros A d a p s H2 Hne. unfold from_nd.
  assert (E : Nat.ltb (length (nd_shape a)) 2 = false) by (apply Nat.ltb_ge; exact H2). rewrite E.
  assert (E2 : Nat.eqb (length p * ncols s) (prod (nd_shape a)) = false) by (now apply Nat.eqb_neq). rewrite E2. reflexivity.
Qed.
Print Assumptions C10_size_mismatch_rejected.

Theorem C10_permuted_shape_rejected :
  forall (A : Type) (d : A) (a : nd A) (p s : list (list nat)),
  2 <= length (nd_shape a) -> ncols p + length s = length (nd_shape a) ->
  nd_shape a <> get_dimensionality (transpose2d 0 p) (seq 0 (length (orient (transpose2d 0 p)))) ++
                get_dimensionality s (seq 0 (length (orient s))) ->
  from_nd d a (Some p) (Some s) = Err ValueE.
Proof.
  intros A d a p s H2 Hk Hne. unfold from_nd.
  assert (E : Nat.ltb (length (nd_shape a)) 2 = false) by (apply Nat.ltb_ge; exact H2). rewrite E.
  destruct (Nat.eqb (length p * ncols s) (prod (nd_shape a))); [|reflexivity]. cbn [negb].
  rewrite Hk, Nat.eqb_refl. cbn [negb].
  match goal with |- context [list_eqb Nat.eqb ?x ?y] => destruct (list_eqb Nat.eqb x y) eqn:El end; [|reflexivity].
  exfalso. apply Hne. apply (list_eqb_eq Nat.eqb); [apply Nat.eqb_eq|exact El].
Qed.
Print Assumptions C10_permuted_shape_rejected.

(** Coordinate map of the flattening, for ANY N-D array of the right shape (not only one produced by reshape_to_n_dims):
    element (r, c) of the 2-D result is the element of the array at the coordinates carried by row r of the position
    matrix and column c of the spectroscopic matrix. *)
Theorem C10_flatten_coordinate_map :
  forall (A : Type) (dflt : A) (szp orderp szs orders : list nat) (pos : list (list nat)) (b : nd A),
    wf_grid szp orderp -> wf_grid szs orders ->
    length szp <= prod (radices szp orderp) -> length szs <= prod (radices szs orders) ->
    0 < length szp -> 0 < length szs ->
    transpose2d 0 pos = grid_spec szp orderp -> ncols pos = length szp ->
    nd_shape b = szp ++ szs -> length (nd_data b) = prod (nd_shape b) ->
    let spec := grid_spec szs orders in
    let N := prod (radices szp orderp) in let M := prod (radices szs orders) in
    exists data, from_nd dflt b (Some pos) (Some spec) = Ok (N, M, data) /\ length data = N * M /\
      forall r c, r < N -> c < M ->
        nth (r * M + c) data dflt = nd_get dflt b (pos_row pos (length szp) r ++ spec_col spec (length szs) c).
Proof. intros. eapply grid_from_nd; eassumption. Qed.
Print Assumptions C10_flatten_coordinate_map.

(** ... and the other direction of the inverse: reshaping the flattened matrix to N-D form gives the array back. *)
Theorem C10_to_nd_inverts_from_nd :
  forall (A : Type) (dflt : A) (szp orderp szs orders : list nat) (pos : list (list nat)) (b : nd A),
    wf_grid szp orderp -> wf_grid szs orders ->
    length szp <= prod (radices szp orderp) -> length szs <= prod (radices szs orders) ->
    0 < length szp -> 0 < length szs ->
    transpose2d 0 pos = grid_spec szp orderp -> ncols pos = length szp ->
    nd_shape b = szp ++ szs -> length (nd_data b) = prod (nd_shape b) ->
    let spec := grid_spec szs orders in
    let N := prod (radices szp orderp) in let M := prod (radices szs orders) in
    forall data, from_nd dflt b (Some pos) (Some spec) = Ok (N, M, data) ->
    exists main labels, concat main = data /\ length main = N /\ rect main M /\ to_nd dflt main pos spec false = Ok (b, labels).
Proof. intros. eapply grid_to_from_id; eassumption. Qed.
Print Assumptions C10_to_nd_inverts_from_nd.

Example C10_example :
  let main := [[1; 2]; [3; 4]; [5; 6]; [7; 8]; [9; 10]; [11; 12]] in
  let pos := [[0; 0]; [0; 1]; [0; 2]; [1; 0]; [1; 1]; [1; 2]] in       (* second dimension fastest *)
  let spec := [[0; 1]] in
  exists a, to_nd 0 main pos spec false = Ok (a, [0; 1; 2]) /\ nd_shape a = [2; 3; 2] /\
            from_nd 0 a (Some pos) (Some spec) = Ok (6, 2, concat main).
Proof. cbv zeta. eexists. split; [vm_compute; reflexivity|]. split; vm_compute; reflexivity. Qed.

(** non-vacuity of the squeezed theorems: a 2 x 3 array, first dimension fastest on the present side *)
Example C10_example_squeezed :
  from_nd 0 (mkNd [2; 3] [0; 1; 2; 3; 4; 5]) (Some [[0]]) (Some (grid_spec [2; 3] [0; 1])) = Ok (1, 6, [0; 3; 1; 4; 2; 5]) /\
  from_nd 0 (mkNd [2; 3] [0; 1; 2; 3; 4; 5]) (Some (transpose2d 0 (grid_spec [2; 3] [0; 1]))) (Some [[0]]) = Ok (6, 1, [0; 3; 1; 4; 2; 5]).
Proof. split; vm_compute; reflexivity. Qed.
