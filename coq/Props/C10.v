(** C10 -- flattening an N-D array back to 2D inverts the N-D reshape. (theorems under construction) *)
From Coq Require Import List Arith Lia Bool.
Require Import V.Base.ListAux V.Base.Radix V.Base.Matrix V.Base.NdArray V.Usid.SortOrder V.Usid.ToND V.Usid.FromND.
Import ListNotations.

Theorem C10_no_matrix_is_rejected : forall (A : Type) (d : A) (a : nd A), from_nd d a None None = Err ValueE.
Proof. reflexivity. Qed.
Print Assumptions C10_no_matrix_is_rejected.
