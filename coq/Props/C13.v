(** C13 -- indexed and results groups get fresh, monotone, collision-free names. *)
From Coq Require Import List Arith Lia Bool Ascii.
Require Import V.Base.ListAux V.H5.Naming V.H5.NamingProof.
Import ListNotations.

(** For ANY contents of the parent group and ANY non-empty base name: the computed name is <base>_<NNN> with
    NNN = 1 + the highest number used by groups named exactly <base>_<digits> (000 if none); no existing group has
    that name, and every existing group of exactly that base has a smaller number (monotone). *)
Theorem C13_fresh_monotone :
  forall (d : dir) (base n : str), assign_group_index d base = NOk n ->
    let b := with_us base in
    n = b ++ fmt03 (next_index (used_indices d b)) /\
    (forall g, In (g, KGroup) d -> g <> n) /\
    (forall g i, In (g, KGroup) d -> g = b ++ fmt03 i -> i < next_index (used_indices d b)).
Proof. exact assign_fresh. Qed.
Print Assumptions C13_fresh_monotone.

(** Every request with a non-empty base succeeds, adds exactly the new group and leaves all other members alone,
    unless a sibling *dataset* already carries the computed name (stated hypothesis). *)
Theorem C13_creation_succeeds_and_preserves :
  forall (d : dir) (base : str), base <> [] ->
    (forall n, assign_group_index d base = NOk n -> ~ In (n, KDset) d) ->
    exists d' n, create_indexed_group d base = NOk (d', n) /\ d' = d ++ [(n, KGroup)] /\ ~ In n (names d).
Proof. exact create_indexed_group_ok. Qed.
Print Assumptions C13_creation_succeeds_and_preserves.

(** (dataset, tool, index) -> name is injective (dataset names carry no '-'; the library rewrites '-' in tool names). *)
Theorem C13_name_injective :
  forall ds t s ds' t' s', ~ In dash ds -> ~ In dash ds' -> all_digits s = true -> all_digits s' = true ->
    results_prefix ds t ++ s = results_prefix ds' t' ++ s' -> ds = ds' /\ clean_tool t = clean_tool t' /\ s = s'.
Proof. exact results_name_injective. Qed.
Print Assumptions C13_name_injective.

(** Looking up (dataset, tool) returns exactly the groups named <dataset>-<tool>_<digits> ... *)
Theorem C13_lookup_exact :
  forall d ds t g, In g (find_results_groups d ds t) <->
    In (g, KGroup) d /\ exists s, all_digits s = true /\ g = results_prefix ds t ++ s.
Proof. exact find_results_groups_exact. Qed.
Print Assumptions C13_lookup_exact.

(** ... so a group created for another pair, however its names contain or extend the queried ones, is never returned. *)
Theorem C13_lookup_rejects_other_pairs :
  forall d ds t ds' t' i, ~ In dash ds -> ~ In dash ds' ->
    In (results_prefix ds' t' ++ fmt03 i) (find_results_groups d ds t) -> ds' = ds /\ clean_tool t' = clean_tool t.
Proof. exact find_results_groups_other_pair. Qed.
Print Assumptions C13_lookup_rejects_other_pairs.

Theorem C13_source_recoverable :
  forall d ds t i, ~ In dash ds -> In (ds, KDset) d -> NoDup (names d) ->
    get_source_dataset d (results_prefix ds t ++ fmt03 i) = NOk ds.
Proof. exact source_recoverable. Qed.
Print Assumptions C13_source_recoverable.

Theorem C13_index_format_roundtrip : forall n, parse_nat (fmt03 n) = n /\ all_digits (fmt03 n) = true.
Proof. exact fmt03_spec. Qed.
Print Assumptions C13_index_format_roundtrip.

From Coq Require String.
Import String.StringSyntax.
Local Open Scope string_scope.
Example C13_example :
  let d := [(s_of "A_B_000", KGroup); (s_of "A_000", KGroup); (s_of "A_007", KGroup); (s_of "A_1000", KGroup); (s_of "A_009", KDset)] in
  assign_group_index d (s_of "A") = NOk (s_of "A_1001") /\ assign_group_index d (s_of "A_B") = NOk (s_of "A_B_001") /\
  assign_group_index d (s_of "C") = NOk (s_of "C_000").
Proof. vm_compute. repeat split. Qed.
