(** C06 -- Main-dataset recognition is total and matches the structural definition. *)
From Coq Require Import List Arith Lia Bool.
Require Import V.Base.CorrAux V.H5.IsMain V.H5.IsMainProof.
Import ListNotations.

(** For EVERY descriptor of an HDF5 object (any kinds of links, any ranks and shapes, any attribute states): the test
    is a total boolean function (it cannot raise) and answers True exactly when all structural rules hold. *)
Theorem C06_check_if_main_total_and_exact : forall d : desc, check_if_main d = true <-> is_main_spec d.
Proof. exact check_if_main_exact. Qed.
Print Assumptions C06_check_if_main_total_and_exact.

(** The dataset wrapper can be constructed exactly for those objects, TypeError otherwise. *)
Theorem C06_wrapper_gate :
  forall d, (wrap d = Constructed <-> is_main_spec d) /\ (wrap d = RaisesTypeError <-> ~ is_main_spec d).
Proof. exact wrapper_gate. Qed.
Print Assumptions C06_wrapper_gate.

(** The recursive search returns exactly the valid Main datasets under a group (any tree, any mix of objects). *)
Theorem C06_get_all_main_exact :
  forall (A : Type) (objs : list (A * desc)) (x : A),
    In x (get_all_main objs) <-> exists d, In (x, d) objs /\ is_main_spec d.
Proof. exact @get_all_main_exact. Qed.
Print Assumptions C06_get_all_main_exact.

Example C06_example :
  let a2 := mkAnc 4 [6; 2] (1, [0; 1]) (1, [2; 3]) in
  let s2 := mkAnc 4 [1; 5] (1, [4]) (1, [5]) in
  check_if_main (mkDesc true [6; 5] 1 1 a2 a2 s2 s2) = true /\
  check_if_main (mkDesc true [6; 5] 1 1 a2 (mkAnc 3 [] (0, []) (0, [])) s2 s2) = false /\
  check_if_main (mkDesc true [6; 5] 1 1 a2 a2 (mkAnc 4 [1; 5; 1] (1, [4]) (1, [5])) s2) = false.
Proof. vm_compute. repeat split. Qed.
