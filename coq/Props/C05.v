(** C05 -- results are reused only for same dataset, tool, parameters, and if complete. *)
From Coq Require Import List Arith Lia Bool ZArith.
Require Import V.Base.ListAux V.H5.Naming V.H5.NamingProof V.H5.Attrs V.Proc.Reuse V.Proc.ReuseProof.
Import ListNotations.

(** For ANY history of groups in the target location: a group is returned without computing only if it is named
    <this dataset>-<this tool>_<digits>, its stored parameters match the requested ones, and its record is complete. *)
Theorem C05_reuse_sound :
  forall N groups ds t parms n, decide N groups ds t parms false = Return n ->
    exists g, In g groups /\ g_name g = n /\
      (exists s, all_digits s = true /\ g_name g = results_prefix ds t ++ s) /\
      check_for_matching_attrs (g_attrs g) parms = true /\ classify N g = Duplicate.
Proof. exact reuse_sound. Qed.
Print Assumptions C05_reuse_sound.

(** "complete": a well-formed status dataset (one uint8 mark per position, marks 0/1) that is 1 everywhere, or -- for
    legacy groups without one -- a last_pixel attribute that has reached the number of positions. *)
Theorem C05_duplicate_is_complete :
  forall N g, classify N g = Duplicate ->
    match g_status g with
    | StDset len_ok dtype_ok vals => len_ok = true /\ dtype_ok = true /\ (length vals = N -> Forall (fun v => v = 1) vals)
    | StNone => exists lp, g_last_pixel g = Some lp /\ (Z.of_nat N <= lp)%Z
    | StNotDataset => False
    end.
Proof. exact duplicate_is_complete. Qed.
Print Assumptions C05_duplicate_is_complete.

(** Groups of another dataset or tool are never returned or resumed, however their names contain the queried ones
    (the name of the chosen group decomposes uniquely: C13). *)
Theorem C05_never_other_dataset_or_tool :
  forall N groups ds t parms n ds' t' i, ~ In dash ds -> ~ In dash ds' ->
    (decide N groups ds t parms false = Return n \/ decide N groups ds t parms false = Resume n) ->
    n = results_prefix ds' t' ++ fmt03 i -> ds' = ds /\ clean_tool t' = clean_tool t.
Proof.
  intros N groups ds t parms n ds' t' i Hd Hd' H En.
  assert (exists s, all_digits s = true /\ n = results_prefix ds t ++ s) as (s & Hs & E).
  { destruct H as [H|H].
    - destruct (reuse_sound _ _ _ _ _ _ H) as (g & _ & <- & Hx & _). exact Hx.
    - destruct (resume_last_partial _ _ _ _ _ _ H) as (_ & g & pre & _ & <- & _ & Hx & _). exact Hx. }
  destruct (fmt03_spec i) as [_ Hf]. rewrite En in E.
  destruct (results_name_injective ds' t' (fmt03 i) ds t s Hd' Hd Hf Hs E) as (H1 & H2 & _). auto.
Qed.
Print Assumptions C05_never_other_dataset_or_tool.

(** Otherwise the most recent matching incomplete group is resumed (and only when no complete one exists) ... *)
Theorem C05_resume_last_partial :
  forall N groups ds t parms n, decide N groups ds t parms false = Resume n ->
    duplicates N (matching_groups groups ds t parms) = [] /\
    exists g pre, partials N (matching_groups groups ds t parms) = pre ++ [g] /\ g_name g = n /\
      In g groups /\ (exists s, all_digits s = true /\ g_name g = results_prefix ds t ++ s) /\
      check_for_matching_attrs (g_attrs g) parms = true /\ classify N g = Partial.
Proof. exact resume_last_partial. Qed.
Print Assumptions C05_resume_last_partial.

(** ... and otherwise a new group is created. *)
Theorem C05_fresh_otherwise :
  forall N groups ds t parms, decide N groups ds t parms false = Fresh <->
    duplicates N (matching_groups groups ds t parms) = [] /\ partials N (matching_groups groups ds t parms) = [].
Proof. exact fresh_otherwise. Qed.
Print Assumptions C05_fresh_otherwise.

Theorem C05_malformed_or_missing_progress_ignored :
  forall N g,
    (g_status g = StNotDataset \/ (exists d vals, g_status g = StDset false d vals) \/ (exists l vals, g_status g = StDset l false vals) \/
     (exists l d vals, g_status g = StDset l d vals /\ existsb (fun v => Nat.ltb 1 v) vals = true) \/
     (g_status g = StNone /\ g_last_pixel g = None)) -> classify N g = Ignored.
Proof. exact malformed_ignored. Qed.
Print Assumptions C05_malformed_or_missing_progress_ignored.

(** A forced fresh computation: always a new group ... *)
Theorem C05_override_starts_fresh : forall N groups ds t parms, decide N groups ds t parms true = Fresh.
Proof. reflexivity. Qed.
Print Assumptions C05_override_starts_fresh.

(** ... and the constructor leaves every group that has a status object untouched.  The full frame statement is refuted:
    legacy groups (last_pixel only) are upgraded with a status dataset, forced or not (open known finding). *)
Theorem C05_override_frame_partial : forall N g, g_status g <> StNone -> ctor_writes N g = [].
Proof. exact ctor_frame_except_legacy. Qed.
Print Assumptions C05_override_frame_partial.
Theorem C05_override_frame_refuted : exists N g, ctor_writes N g <> [].
Proof. exact ctor_frame_refuted. Qed.
Print Assumptions C05_override_frame_refuted.
