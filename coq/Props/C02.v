(** C02 -- writing a Main dataset yields a valid, coordinate-faithful structure; a rejected call leaves the group as found. *)
From Coq Require Import List Arith Lia Bool Ascii.
Require Import V.Base.ListAux V.Base.Radix V.H5.Naming V.H5.IsMain V.H5.WriteMain V.H5.WriteMainProof.
Import ListNotations.

(** Acceptance: the object stored under the cleaned name is the returned one, it satisfies EVERY structural rule of a
    Main dataset (the independent definition of C06), has the shape of the data handed in and holds that data. *)
Theorem C02_accepted_is_valid_main :
  forall g a m g', write_main g a = (WOk m, g') ->
    glookup (clean_name (a_name a)) g' = Some (EMain m) /\ is_main_spec (desc_of m) /\
    exists n k, check_main (a_main a) = WOk (n, k) /\ m_shape m = [n; k] /\ m_src m = a_src a.
Proof. exact write_main_ok_valid. Qed.
Print Assumptions C02_accepted_is_valid_main.

(** Acceptance, coordinates (position side built from Dimension objects, any number of dimensions, any sizes, both
    ordering flags): row n, column i of the stored indices is digit (k-1-i) of n in the mixed radix of the sizes listed
    fastest-first; the stored value is that dimension's value at that index; label and unit i are that dimension's;
    there are exactly prod(sizes) rows = the number of rows of the main dataset. *)
Theorem C02_position_coordinates :
  forall g a m g' p ds i n,
  write_main g a = (WOk m, g') -> a_pos a = Fresh p (DList ds) ->
  Forall (fun d => dm_mode d = 0) ds -> Forall (fun d => 0 < length (dm_vals d)) ds ->
  let dims1 := if a_s2f a then rev ds else ds in
  let lengths := map (fun d => length (dm_vals d)) dims1 in
  let k := length ds in
  i < k -> n < prod lengths ->
  exists li ai lv av rest, m_links m = (li, ai) :: (lv, av) :: rest /\
    nth 0 (m_shape m) 0 = prod lengths /\
    let dm := nth (k - S i) dims1 dim0 in
    let dg := nth (k - S i) (digits lengths n) 0 in
    nth i (nth n (ad_mat ai) []) 0 = dg /\ nth i (nth n (ad_mat av) []) 0 = nth dg (dm_vals dm) 0 /\
    nth i (snd (ad_labels ai)) 0 = dm_label dm /\ nth i (snd (ad_units ai)) 0 = dm_unit dm /\
    length (ad_mat ai) = prod lengths.
Proof. exact write_main_fresh_pos_coords. Qed.
Print Assumptions C02_position_coordinates.

Theorem C02_spectroscopic_coordinates :
  forall g a m g' p ds i n,
  write_main g a = (WOk m, g') -> a_spec a = Fresh p (DList ds) ->
  Forall (fun d => dm_mode d = 0) ds -> Forall (fun d => 0 < length (dm_vals d)) ds ->
  let dims1 := if a_s2f a then rev ds else ds in
  let lengths := map (fun d => length (dm_vals d)) dims1 in
  let k := length ds in
  i < k -> n < prod lengths ->
  exists l0 l1 li ai lv av rest, m_links m = l0 :: l1 :: (li, ai) :: (lv, av) :: rest /\
    nth 1 (m_shape m) 0 = prod lengths /\
    let dm := nth (k - S i) dims1 dim0 in
    let dg := nth (k - S i) (digits lengths n) 0 in
    nth n (nth i (ad_mat ai) []) 0 = dg /\ nth n (nth i (ad_mat av) []) 0 = nth dg (dm_vals dm) 0 /\
    nth i (snd (ad_labels ai)) 0 = dm_label dm /\ nth i (snd (ad_units ai)) 0 = dm_unit dm /\
    length (ad_mat ai) = k.
Proof. exact write_main_fresh_spec_coords. Qed.
Print Assumptions C02_spectroscopic_coordinates.

(** every combination of indices occurs at exactly one row (column) -- the matrices enumerate the full Cartesian product *)
Theorem C02_full_cartesian_product :
  forall (lengths idx : list nat), Forall (fun r => 0 < r) lengths -> inb idx lengths ->
    exists n, n < prod lengths /\ digits lengths n = idx /\ forall m, m < prod lengths -> digits lengths m = idx -> m = n.
Proof. intros lengths idx H1 H2. exact (digits_bijection lengths H1 idx H2). Qed.
Print Assumptions C02_full_cartesian_product.

(** Nothing that existed is removed or replaced by an accepted call; new members have unused names. *)
Theorem C02_existing_members_kept :
  forall g a m g', write_main g a = (WOk m, g') -> ext g g' /\ (local_only a -> ext0 g g').
Proof. exact write_main_ok_extends. Qed.
Print Assumptions C02_existing_members_kept.

(** Rejection: whatever the point of failure, the group has exactly the members it had ... *)
Theorem C02_rejection_same_members :
  forall g a e g', write_main g a = (WErr e, g') -> map fst g' = map fst g.
Proof. exact write_main_err_names. Qed.
Print Assumptions C02_rejection_same_members.

(** ... and, when no ancillary dataset has to be copied in from another file, it IS the group it was ... *)
Theorem C02_rejection_leaves_group_as_found :
  forall g a e g', local_only a -> write_main g a = (WErr e, g') -> g' = g.
Proof. exact write_main_err_atomic. Qed.
Print Assumptions C02_rejection_leaves_group_as_found.

(** ... so that a corrected retry behaves as if the rejected call had never been made. *)
Theorem C02_corrected_retry :
  forall g a a' e g', local_only a -> write_main g a = (WErr e, g') -> write_main g' a' = write_main g a'.
Proof. exact write_main_retry. Qed.
Print Assumptions C02_corrected_retry.

(** The writer as it was before repair 0a152a0 does NOT have this property: spectroscopic sizes that do not match are
    detected after the position datasets were written, and the corrected retry is refused. *)
Definition dX := mkDim 1 9 [10; 11] 0.
Definition dS2 := mkDim 2 9 [20; 21] 0.
Definition dS3 := mkDim 2 9 [20; 21; 22] 0.
Definition pfx (s : str) := Some s.
Definition bad_args  := mkArgs 0 0 [ "M"%char ] (MArray 2 2 false) 7 (Fresh (pfx ["P"%char; "_"%char]) (DList [dX])) (Fresh (pfx ["S"%char; "_"%char]) (DList [dS3])) false true true.
Definition good_args := mkArgs 0 0 [ "M"%char ] (MArray 2 2 false) 7 (Fresh (pfx ["P"%char; "_"%char]) (DList [dX])) (Fresh (pfx ["S"%char; "_"%char]) (DList [dS2])) false true true.

Theorem C02_unrepaired_writer_refuted :
  exists g a a' e g' e', write_main_unrepaired g a = (WErr e, g') /\ g' <> g /\
    (exists m g'', write_main_unrepaired g a' = (WOk m, g'')) /\ fst (write_main_unrepaired g' a') = WErr e'.
Proof.
  exists [], bad_args, good_args. eexists. eexists. eexists.
  split; [vm_compute; reflexivity|]. split; [discriminate|]. split; [eexists; eexists; vm_compute; reflexivity|].
  vm_compute. reflexivity.
Qed.
Print Assumptions C02_unrepaired_writer_refuted.

From Coq Require String.
Import String.StringSyntax.
Local Open Scope string_scope.
(** non-vacuity: the repaired writer rejects the same call leaving the empty group, then accepts the corrected one *)
Example C02_example :
  snd (write_main [] bad_args) = [] /\ fst (write_main [] bad_args) = WErr WValueE /\
  map fst (snd (write_main [] good_args)) = [s_of "P_Indices"; s_of "P_Values"; s_of "S_Indices"; s_of "S_Values"; s_of "M"] /\
  local_only bad_args.
Proof. vm_compute. repeat split. Qed.

(** The hypothesis [local_only] of the exact form is necessary (known finding KF-C02-COPY-ATTRS): when ancillaries come
    from another file and equal datasets of the same names already exist, sidpy's copy_dataset rewrites their label /
    unit attributes before a later check rejects the call; the clean-up removes new members only. *)
Definition old_ad := mkAd [2; 1] (1, [5]) (1, [9]) [[0]; [1]].
Definition src_ad := mkAd [2; 1] (1, [1]) (1, [9]) [[0]; [1]].
Definition xfile_args :=
  mkArgs 0 0 (s_of "M") (MArray 2 2 false) 7 (Reuse (mkX true 1 (s_of "PI") src_ad) (mkX true 1 (s_of "PV") src_ad))
         (Fresh (pfx (s_of "S_")) (DList [dS3])) false true true.
Theorem C02_cross_file_copy_not_atomic :
  exists g a e g', write_main g a = (WErr e, g') /\ g' <> g /\ map fst g' = map fst g.
Proof.
  exists [(s_of "PI", EAd old_ad); (s_of "PV", EAd old_ad)], xfile_args. eexists. eexists.
  split; [vm_compute; reflexivity|]. split; [discriminate|reflexivity].
Qed.
Print Assumptions C02_cross_file_copy_not_atomic.
