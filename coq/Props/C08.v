(** C08 -- generated ancillary matrices are exact Cartesian products in documented order. *)
From Coq Require Import List Arith Lia Bool.
Require Import V.Base.ListAux V.Base.Radix V.Base.Matrix V.Usid.AncBuild.
Import ListNotations.

(** Builder, spectroscopic shape, any number of dimensions, any sizes >= 1, any values:
    entry (d, n) of the indices matrix is digit d of n in the mixed radix whose FIRST radix is the first supplied
    dimension (first dimension varies fastest); the values matrix holds value_d[index_d] at every entry. *)
Theorem C08_builder_entries :
  forall (V : Type) (dv : V) (vals : list (list V)) (d n : nat),
    Forall (fun v => 0 < length v) vals -> d < length vals -> n < prod (map (@length V) vals) ->
    nth n (nth d (build_ind (map (@length V) vals)) []) 0 = nth d (digits (map (@length V) vals) n) 0 /\
    nth n (nth d (build_val vals) []) dv = nth (nth d (digits (map (@length V) vals) n) 0) (nth d vals []) dv /\
    length (nth d (build_ind (map (@length V) vals)) []) = prod (map (@length V) vals).
Proof.
  intros V dv vals d n Hpos Hd Hn.
  assert (Hall : Forall (fun r => 0 < r) (map (@length V) vals)).
  { rewrite Forall_forall in *. intros x Hx. apply in_map_iff in Hx. destruct Hx as (v & <- & Hv). now apply Hpos. }
  destruct (build_ind_is_digits (map (@length V) vals) d n Hall ltac:(now rewrite map_length) Hn) as [H1 H2].
  destruct (nth_build_val dv vals d n Hpos Hd Hn) as [H3 _]. auto.
Qed.
Print Assumptions C08_builder_entries.

(** ... and the columns 0 .. N-1 enumerate every combination of per-dimension indices exactly once. *)
Theorem C08_every_combination_exactly_once :
  forall (lengths ds : list nat), Forall (fun r => 0 < r) lengths -> inb ds lengths ->
    exists n, n < prod lengths /\ digits lengths n = ds /\ forall m, m < prod lengths -> digits lengths m = ds -> m = n.
Proof. intros lengths ds H1 H2. exact (digits_bijection lengths H1 ds H2). Qed.
Print Assumptions C08_every_combination_exactly_once.

(** Position matrices are the transposes of the spectroscopic ones. *)
Theorem C08_position_is_transpose :
  forall (V : Type) (dv : V) (vals : list (list V)) (d n : nat),
    Forall (fun v => 0 < length v) vals -> d < length vals -> n < prod (map (@length V) vals) ->
    let '(pi, pv) := build_ind_val dv vals false in
    let '(si, sv) := build_ind_val dv vals true in
    nth d (nth n pi []) 0 = nth n (nth d si []) 0 /\ nth d (nth n pv []) dv = nth n (nth d sv []) dv.
Proof. exact @build_position_is_transpose. Qed.
Print Assumptions C08_position_is_transpose.

(** Written datasets (write_ind_val_dsets): row i is the (k-1-i)-th fastest dimension -- dimensions are listed slowest
    first -- and the label/unit stored at position i belongs to that very dimension, under both ordering flags
    (dims1 is the caller's list if it was given fastest-first, its reversal if slow_to_fast). *)
Theorem C08_written_rows_slowest_first_labels_aligned :
  forall (L V : Type) (dv : V) (dl : L) (dims : list (L * list V)) (s2f : bool) (i n : nat),
    let dims1 := if s2f then rev dims else dims in
    let lengths := map (fun d => length (snd d)) dims1 in
    let k := length dims in
    let '(wi, wv, wl) := write_ind_val dv dims true s2f in
    Forall (fun d => 0 < length (snd d)) dims -> i < k -> n < prod lengths ->
    nth i wl dl = fst (nth (k - S i) dims1 (dl, [])) /\
    nth n (nth i wi []) 0 = nth (k - S i) (digits lengths n) 0 /\
    nth n (nth i wv []) dv = nth (nth (k - S i) (digits lengths n) 0) (snd (nth (k - S i) dims1 (dl, []))) dv /\
    length wi = k /\ length (nth i wi []) = prod lengths.
Proof. exact @written_spectral_rows. Qed.
Print Assumptions C08_written_rows_slowest_first_labels_aligned.

(** stored order = caller's order when slow_to_fast, reversed otherwise *)
Theorem C08_stored_order :
  forall (L V : Type) (dl : L) (dims : list (L * list V)) (i : nat), i < length dims ->
    nth (length dims - S i) (rev dims) (dl, []) = nth i dims (dl, []).
Proof. intros L V dl dims i Hi. rewrite rev_nth by lia. f_equal. lia. Qed.
Print Assumptions C08_stored_order.

Example C08_example :
  write_ind_val 0 [(1, [10;11]); (2, [20;21;22])] true false
  = ([[0;0;1;1;2;2];[0;1;0;1;0;1]], [[20;20;21;21;22;22];[10;11;10;11;10;11]], [2;1]).
Proof. vm_compute. reflexivity. Qed.
