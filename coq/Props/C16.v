(** C16 -- stored parameters match a query exactly when every queried value is equal. *)
From Coq Require Import List Arith Lia Bool ZArith QArith Qabs.
Require Import V.H5.Attrs V.H5.AttrsProof.
Import ListNotations.

(** The comparison is a total boolean function of (stored attributes, query): it cannot raise and cannot modify
    the object (the model is a pure function; the implementation is held to it by the correspondence run, where an
    exception or a changed attribute digest is a disagreement). *)
Theorem C16_match_total_and_pure : forall a q, exists b : bool, check_for_matching_attrs a q = b.
Proof. intros a q. eexists. reflexivity. Qed.
Print Assumptions C16_match_total_and_pure.

(** For any dictionary with distinct keys over ints / floats / bools / strings / lists of numbers / lists of strings /
    None, written onto ANY prior attributes: comparing with that very dictionary reports a match. *)
Theorem C16_match_reflexive :
  forall (a : attrs) (d : list (nat * pyval)), NoDup (map fst d) ->
    check_for_matching_attrs (write_attrs a d) d = true.
Proof. exact match_reflexive. Qed.
Print Assumptions C16_match_reflexive.

(** Changing one queried entry -- another scalar, another string, another length, another string element, or a numeric
    element further away than the np.allclose tolerance -- reports a mismatch, wherever the entry sits in the query. *)
Theorem C16_match_sensitive :
  forall a q1 q2 k v old, lookup k a = Some old -> perturbed old v ->
    check_for_matching_attrs a (q1 ++ (k, v) :: q2) = false.
Proof. exact match_sensitive. Qed.
Print Assumptions C16_match_sensitive.

(** The full statement (ANY changed numeric element) is false of the code: np.allclose has a tolerance. *)
Theorem C16_match_sensitive_refuted_within_tolerance :
  exists a q, lookup 0%nat a = Some (SNums [1; 2]) /\ q = [(0%nat, PNums [1; 2 + (1 # 1000000000)])] /\
              check_for_matching_attrs a q = true.
Proof. exact match_sensitive_refuted_within_tolerance. Qed.
Print Assumptions C16_match_sensitive_refuted_within_tolerance.

Theorem C16_match_missing_key :
  forall a q1 q2 k v, v <> PNone -> lookup k a = None -> check_for_matching_attrs a (q1 ++ (k, v) :: q2) = false.
Proof. exact match_missing_key. Qed.
Print Assumptions C16_match_missing_key.

Theorem C16_match_none_ignored :
  forall a q1 q2 k, check_for_matching_attrs a (q1 ++ (k, PNone) :: q2) = check_for_matching_attrs a (q1 ++ q2).
Proof. exact match_none_ignored. Qed.
Print Assumptions C16_match_none_ignored.

Example C16_example :
  let d := [(1%nat, PNum 3); (2%nat, PStr 7%nat); (3%nat, PNums [1; 5 # 2]); (4%nat, PNone); (5%nat, PStrs [1%nat; 2%nat])] in
  check_for_matching_attrs (write_attrs [] d) d = true /\
  check_for_matching_attrs (write_attrs [] d) [(3%nat, PNums [1; 5 # 2; 4])] = false /\
  check_for_matching_attrs (write_attrs [] d) [(6%nat, PNum 1)] = false.
Proof. vm_compute. repeat split. Qed.
