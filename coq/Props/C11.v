(** C11 -- slice_to_dataset preserves every selected element with its coordinates. *)
From Coq Require Import List Arith Lia Bool Sorted.
Require Import V.Base.ListAux V.Base.Radix V.Usid.AncBuild V.Usid.Grid V.Usid.SelEnum V.Usid.SliceDset V.Usid.UnitValues V.Usid.SliceUnit.
Import ListNotations.

(** The arithmetic core, for any number of dimensions, any sizes, any per-dimension selections: the rows whose every
    index is chosen, taken in source order, enumerate the product of the selections in the same mixed-radix order. *)
Theorem C11_selected_rows_enumerate_the_product :
  forall rs ch, Forall2 good ch rs ->
  sel_rows rs ch = map (fun j => undigits rs (pick ch (digits (map (@length nat) ch) j))) (seq 0 (prod (map (@length nat) ch))).
Proof. exact sel_rows_enum. Qed.
Print Assumptions C11_selected_rows_enumerate_the_product.

(** Exactly the selected rows / columns are kept: none missing, none twice, in source order, prod(|selections|) of them. *)
Theorem C11_kept_exactly_the_selected :
  forall s r, In r (side_rows s) <-> r < prod (rs_of s) /\ sel_ok (digits (rs_of s) r) (ch_of s) = true.
Proof. exact kept_rows_exact. Qed.
Print Assumptions C11_kept_exactly_the_selected.
Theorem C11_kept_in_source_order : forall s, StronglySorted lt (side_rows s).
Proof. exact kept_rows_increasing. Qed.
Print Assumptions C11_kept_in_source_order.
Theorem C11_kept_count : forall s, wf_side s -> length (side_rows s) = prod (lens_of s).
Proof. exact kept_rows_count. Qed.
Print Assumptions C11_kept_count.

(** Element (j, l) of the new dataset is the source element at the j-th kept row and l-th kept column. *)
Theorem C11_elements :
  forall M p s j l, j < length (side_rows p) -> l < length (side_rows s) ->
  nth l (nth j (new_data M p s) []) 0 = nth j (side_rows p) 0 * M + nth l (side_rows s) 0.
Proof. exact new_data_entry. Qed.
Print Assumptions C11_elements.

(** Coordinates on a sliced position side: for the p-th fastest source dimension, if it keeps two or more values, the
    new Position_Values hold at row j -- in the column labelled with that very dimension -- the source index that the
    j-th kept row has along it; hence every element of the new dataset is found under the coordinates it had. *)
Theorem C11_position_coordinates :
  forall s j p, wf_side s -> remaining s <> [] -> j < prod (lens_of s) -> p < length (ss_so s) ->
  keep s (nth p (ss_so s) 0) = true ->
  let col := length (remaining s) - S (kept_before (lens_of s) p) in
  let '(wi, wv, wl) := write_ind_val 0 (new_dims s) false false in
  nth col wl 0 = nth p (ss_so s) 0 /\
  nth col (nth j wv []) 0 = src_index s (nth j (side_rows s) 0) p /\
  nth col (nth j wi []) 0 = nth p (digits (lens_of s) j) 0 /\
  length wi = length (side_rows s) /\ length (nth j wi []) = length (remaining s).
Proof. exact written_pos_coordinates. Qed.
Print Assumptions C11_position_coordinates.

Theorem C11_spectroscopic_coordinates :
  forall s j p, wf_side s -> remaining s <> [] -> j < prod (lens_of s) -> p < length (ss_so s) ->
  keep s (nth p (ss_so s) 0) = true ->
  let col := length (remaining s) - S (kept_before (lens_of s) p) in
  let '(wi, wv, wl) := write_ind_val 0 (new_dims s) true false in
  nth col wl 0 = nth p (ss_so s) 0 /\
  nth j (nth col wv []) 0 = src_index s (nth j (side_rows s) 0) p /\
  nth j (nth col wi []) 0 = nth p (digits (lens_of s) j) 0 /\
  length wi = length (remaining s) /\ length (nth col wi []) = length (side_rows s).
Proof. exact written_spec_coordinates. Qed.
Print Assumptions C11_spectroscopic_coordinates.

(** A dimension left with a single value disappears without loss: every kept row has that value along it. *)
Theorem C11_dropped_dimension_is_constant :
  forall s j p, wf_side s -> j < prod (lens_of s) -> p < length (ss_so s) -> keep s (nth p (ss_so s) 0) = false ->
  src_index s (nth j (side_rows s) 0) p = nth 0 (nth (nth p (ss_so s) 0) (ss_ch s) []) 0.
Proof. exact dropped_dimension_constant. Qed.
Print Assumptions C11_dropped_dimension_is_constant.

(** The Dimension descriptors themselves: along the p-th fastest dimension the kept rows of the sliced ancillary matrices
    carry the chosen indices; get_unit_values on that row (values = any function of the index) returns the values of the
    chosen indices in increasing index order -- what _get_dims_for_slice hands to the writer (composition with the C09
    theorem about rows of the tile / repeat form). *)
Theorem C11_unit_values_of_the_sliced_matrices :
  forall (V : Type) (dv : V) (f : nat -> V) (s : sside) (p : nat), wf_side s -> p < length (ss_so s) ->
  let chosen := nth (nth p (ss_so s) 0) (ss_ch s) [] in
  let rowinds := map (fun j => src_index s (nth j (side_rows s) 0) p) (seq 0 (prod (lens_of s))) in
  unit_values_row dv rowinds (map f rowinds) = Some (map f chosen).
Proof. exact @sliced_unit_values. Qed.
Print Assumptions C11_unit_values_of_the_sliced_matrices.

(** The writer before repair 9af1ddc received the remaining dimensions in LABEL order. Witness: sizes (2, 3), second
    dimension fastest, both kept whole: label order assigns to kept row 1 the coordinates (1, 0), its source coordinates
    are (0, 1). *)
Definition unrepaired_dims (s : sside) : list (nat * list nat) :=
  map (fun d => (d, nth d (ss_ch s) [])) (filter (keep s) (seq 0 (length (ss_sz s)))).
Definition s_w := mkSide [2; 3] [1; 0] [[0; 1]; [0; 1; 2]] true.
Theorem C11_label_order_refuted :
  wf_side s_w /\
  let '(wi, wv, wl) := write_ind_val 0 (unrepaired_dims s_w) false false in
  exists j colX, nth colX wl 9 = 0 /\ nth colX (nth j wv []) 9 <> src_index s_w (nth j (side_rows s_w) 0) 1.
Proof.
  split.
  - split.
    + split; [split; [repeat constructor; simpl; intuition discriminate|split; [reflexivity|simpl; intros x [<-|[<-|[]]]; lia]]|repeat constructor].
    + repeat constructor; try lia; discriminate.
  - vm_compute. exists 1, 1. split; [reflexivity|discriminate].
Qed.
Print Assumptions C11_label_order_refuted.

Example C11_example :
  side_rows (mkSide [2; 3] [1; 0] [[0; 1]; [0; 2]] true) = [0; 2; 3; 5] /\
  new_side (mkSide [2; 3] [1; 0] [[0; 1]; [0; 2]] true) false = Written [0; 1] [[0; 0]; [0; 1]; [1; 0]; [1; 1]] [[0; 0]; [0; 2]; [1; 0]; [1; 2]] /\
  new_side (mkSide [2; 3] [1; 0] [[1]; [2]] true) false = Written [2] [[0]] [[0]].
Proof. vm_compute. repeat split. Qed.
