(** C19 -- translators preserve element coordinates and produce the canonical layout. *)
From Coq Require Import List Arith Lia Bool ZArith.
Require Import V.Base.ListAux V.Base.Radix V.Base.Matrix V.Base.NdArray V.Usid.AncBuild V.Usid.Reduce V.Usid.Translate V.Usid.TranslateProof V.Usid.TranslateNorm V.Usid.TranslateNormProof.
Import ListNotations.

(** Image: pixel (row y, column x) of a U x V image is element x * U + y of the written column ... *)
Theorem C19_image_pixel_position :
  forall (A : Type) (d : A) (img : list (list A)) v y x, rect img v -> y < length img -> x < v ->
  nth (x * length img + y) (image_rows d img) d = nth x (nth y img []) d.
Proof. exact @image_pixel. Qed.
Print Assumptions C19_image_pixel_position.

(** ... and that row of the written position matrices carries exactly (X = x, Y = y), for every image size. *)
Theorem C19_image_pixel_coordinates :
  forall u v y x, y < u -> x < v ->
  let n := x * u + y in
  let '(wi, wv, wl) := image_pos u v in
  nth 0 wl 9 = 1 /\ nth 1 wl 9 = 0 /\
  nth 0 (nth n wi []) 0 = x /\ nth 1 (nth n wi []) 0 = y /\
  nth 0 (nth n wv []) 0 = x /\ nth 1 (nth n wv []) 0 = y /\
  length wi = u * v /\ length (nth n wi []) = 2.
Proof. exact image_position_rows. Qed.
Print Assumptions C19_image_pixel_coordinates.

(** normalize=True.  The written value of pixel (y, x) stands at the place every image stores that pixel (x * U + y, whose
    position row carries X = x, Y = y by the theorem above) and is the exact rational (pixel - min) / (max - min) ... *)
Theorem C19_normalized_pixel :
  forall (img : list (list nat)) v y x d, rect img v -> y < length img -> x < v ->
  let flat := concat img in let mn := lmin flat in let span := lmax (map (fun p => p - mn) flat) in
  nth (x * length img + y) (image_rows_normalized img) d = (nth x (nth y img []) 0 - mn, span).
Proof. exact normalized_pixel. Qed.
Print Assumptions C19_normalized_pixel.

(** ... which lies in [0, 1], is 0 for a darkest and 1 for a brightest pixel, and keeps the order of the pixel values. *)
Theorem C19_normalized_in_unit_interval :
  forall (img : list (list nat)) row px, In row (normalize img) -> In px row -> fst px <= snd px.
Proof. exact normalized_in_unit_interval. Qed.
Print Assumptions C19_normalized_in_unit_interval.

Theorem C19_normalized_extremes :
  forall img : list (list nat), concat img <> [] ->
  let flat := concat img in let mn := lmin flat in let span := lmax (map (fun p => p - mn) flat) in
  (exists x, In x flat /\ norm_px mn span x = (0, span)) /\ (exists x, In x flat /\ norm_px mn span x = (span, span)).
Proof. exact normalized_extremes. Qed.
Print Assumptions C19_normalized_extremes.

Theorem C19_normalized_monotone :
  forall mn span a b, a <= b ->
  fst (norm_px mn span a) <= fst (norm_px mn span b) /\ snd (norm_px mn span a) = snd (norm_px mn span b).
Proof. exact normalized_monotone. Qed.
Print Assumptions C19_normalized_monotone.

(** non-vacuity: a 2 x 3 image with values 10 .. 60: min 10, span 50; written column-wise; 0.2 is close to 10/50, 0.25 is not;
    a constant image is 0 / 0, matched only by NaN (denominator 0) *)
Example C19_example_normalized :
  image_rows_normalized [[10; 30; 50]; [20; 40; 60]] = [(0, 50); (10, 50); (20, 50); (30, 50); (40, 50); (50, 50)]
  /\ norm_close (10, 50) (3602879701896397, 18014398509481984)%Z = true /\ norm_close (10, 50) (1, 4)%Z = false
  /\ image_rows_normalized [[7; 7]] = [(0, 0); (0, 0)] /\ norm_close (0, 0) (0, 0)%Z = true /\ norm_close (0, 0) (0, 1)%Z = false.
Proof. vm_compute. repeat split; reflexivity. Qed.

(** Labelled N-D dataset, ANY number of axes, ANY sizes, ANY typing and order of the axes: the element with full index idx
    is stored at (row, column) = (C-order offset of its spatial coordinates, of its spectral coordinates), and the digits
    of those offsets (last axis fastest -- the order in which the Dimension lists are declared, slow_to_fast=True) give the
    coordinates back, so that by C08's theorem the ancillary matrices carry idx at that very row / column. *)
Theorem C19_labelled_dataset_element :
  forall (A : Type) (d : A) (a : nd A) (spatial : list bool) (idx : list nat),
  length spatial = length (nd_shape a) -> inbounds idx (nd_shape a) ->
  let sp := sp_axes spatial in let sc := sc_axes spatial in
  let spshape := map (fun ax => nth ax (nd_shape a) 1) sp in
  let scshape := map (fun ax => nth ax (nd_shape a) 1) sc in
  let r := ravel spshape (pick_axes sp idx) in
  let c := ravel scshape (pick_axes sc idx) in
  nth (r * prod scshape + c) (nd_data (sidpy_flat d a spatial)) d = nd_get d a idx /\
  nd_shape (sidpy_flat d a spatial) = spshape ++ scshape /\
  r < prod spshape /\ c < prod scshape /\
  digits (rev spshape) r = rev (pick_axes sp idx) /\ digits (rev scshape) c = rev (pick_axes sc idx).
Proof. exact @sidpy_element. Qed.
Print Assumptions C19_labelled_dataset_element.

(** the axes are only permuted: spatial ones first, each group in its original order *)
Theorem C19_axes_are_permuted :
  forall spatial, NoDup (sp_axes spatial ++ sc_axes spatial) /\ length (sp_axes spatial ++ sc_axes spatial) = length spatial /\
  forall p, p < length spatial -> In p (sp_axes spatial ++ sc_axes spatial).
Proof. exact axes_perm. Qed.
Print Assumptions C19_axes_are_permuted.

(** ArrayTranslator: a call that is rejected is rejected before the old file is removed or a new one created *)
Theorem C19_rejected_before_any_file : forall a e, at_gate a = Some e -> at_file_written a = false.
Proof. exact rejected_before_any_file. Qed.
Print Assumptions C19_rejected_before_any_file.

(** The flattening used before repair d67b136 (reshape without moving the spatial axes to the front) is wrong as soon as
    a spectral axis precedes a spatial one: witness shape (2, 3), axis 0 spectral, axis 1 spatial. *)
Theorem C19_unrepaired_reshape_refuted :
  let a := mkNd [2; 3] [0; 1; 2; 3; 4; 5] in
  let spatial := [false; true] in
  exists idx, inbounds idx (nd_shape a) /\
    let r := ravel [3] (pick_axes (sp_axes spatial) idx) in let c := ravel [2] (pick_axes (sc_axes spatial) idx) in
    nth (r * 2 + c) (nd_data a) 9 <> nd_get 9 a idx /\ nth (r * 2 + c) (nd_data (sidpy_flat 9 a spatial)) 9 = nd_get 9 a idx.
Proof. cbv zeta. exists [0; 1]. split; [cbn; lia|]. vm_compute. split; [discriminate|reflexivity]. Qed.
Print Assumptions C19_unrepaired_reshape_refuted.

Example C19_example :
  image_rows 0 [[1; 2; 3]; [4; 5; 6]] = [1; 4; 2; 5; 3; 6] /\
  nd_data (sidpy_flat 0 (mkNd [2; 3] [0; 1; 2; 3; 4; 5]) [false; true]) = [0; 3; 1; 4; 2; 5] /\
  sidpy_pos [2; 3] [false; false] = ([[0]], [[0]], [2]).
Proof. vm_compute. repeat split. Qed.
