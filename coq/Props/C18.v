(** C18 -- an empty dataset made from a Main dataset is a compatible Main sibling. *)
From Coq Require Import List Arith Lia Bool Ascii.
Require Import V.Base.ListAux V.H5.Naming V.H5.IsMain V.H5.IsMainProof V.H5.EmptyDset V.H5.EmptyDsetProof.
Import ListNotations.

(** The returned dataset is stored under the requested name (dashes replaced), has the source's shape and the requested
    element type; either a compatible dataset of that name existed and is returned with its contents (and storage layout)
    untouched, or the dataset is new, inherits chunking and compression from the source and is empty. *)
Theorem C18_layout_and_contents :
  forall g r nm d u g', create_empty g r = (EOk (nm, d, u), g') ->
  o_shape d = o_shape (r_src r) /\ o_dtype d = r_dtype r /\ mget nm g' = Some (MDset d) /\
  (exists nm0, r_name r = Some nm0 /\ nm = undash nm0) /\
  ((exists e, mget nm g = Some (MDset e) /\ o_shape e = o_shape (r_src r) /\ o_dtype e = r_dtype r /\
              o_content d = o_content e /\ o_chunks d = o_chunks e /\ o_compr d = o_compr e)
   \/ ((forall e, mget nm g = Some (MDset e) -> o_shape e <> o_shape (r_src r) \/ o_dtype e <> r_dtype r) /\
       o_chunks d = o_chunks (r_src r) /\ o_compr d = o_compr (r_src r) /\ o_content d = 0)).
Proof. exact empty_layout. Qed.
Print Assumptions C18_layout_and_contents.

(** Every plain attribute of the source is on the result unless the caller overrode it; every new attribute is on it
    (book-keeping stamps excepted: a Main result gets fresh ones). *)
Theorem C18_descriptive_attributes :
  forall g r nm d u g', create_empty g r = (EOk (nm, d, u), g') ->
  NoDup (map fst (o_attrs (r_src r))) -> NoDup (map fst (r_new r)) ->
  (forall k s v, aget k (o_attrs (r_src r)) = Some (ASimple s v) -> ~ In k (map fst (r_new r)) -> ~ In k bk_keys ->
                 aget k (o_attrs d) = Some (ASimple s v)) /\
  (forall k v, aget k (r_new r) = Some v -> ~ In k bk_keys -> aget k (o_attrs d) = Some v).
Proof. exact empty_attributes. Qed.
Print Assumptions C18_descriptive_attributes.

(** Destination in the source's file, references not skipped, source a Main dataset: the result is a Main dataset whose
    four links are the source's own (structural definition of C06, independent of the order of evaluation). *)
Theorem C18_main_sibling_same_file :
  forall g r nm d u g',
  create_empty g r = (EOk (nm, d, u), g') -> r_other_file r = false -> r_skip_refs r = false ->
  NoDup (map fst (o_attrs (r_src r))) ->
  (forall k, In k main_keys -> ~ In k (map fst (r_new r))) ->
  (forall k, In k link_keys -> exists t, aget k (o_attrs (r_src r)) = Some (ARef t)) ->
  is_main_spec (desc_of (r_heap r) g (r_src r)) ->
  u = true /\ is_main_spec (desc_of (r_heap r) g' d) /\
  (forall k, In k link_keys -> aget k (o_attrs d) = aget k (o_attrs (r_src r))).
Proof. exact empty_is_main_same_file. Qed.
Print Assumptions C18_main_sibling_same_file.

(** Destination in another file: the result is a Main dataset whose links point to members of the destination group that
    have the shape, labels, units and contents of the source's ancillaries (faithful copies). *)
Theorem C18_main_sibling_other_file :
  forall g r nm d u g',
  create_empty g r = (EOk (nm, d, u), g') -> r_other_file r = true ->
  NoDup (map fst (o_attrs (r_src r))) ->
  (forall k, In k main_keys -> ~ In k (map fst (r_new r))) ->
  (forall k, In k link_keys -> exists t, aget k (o_attrs (r_src r)) = Some (ARef t)) ->
  ~ In nm link_keys ->
  is_main_spec (desc_of (r_heap r) g (r_src r)) ->
  u = true /\ is_main_spec (desc_of (r_heap r) g' d) /\
  (forall k, In k link_keys -> exists t o o', aget k (o_attrs (r_src r)) = Some (ARef t) /\ hget t (r_heap r) = Some (MDset o) /\
      aget k (o_attrs d) = Some (ALocal k) /\ mget k g' = Some (MDset o') /\
      o_shape o' = o_shape o /\ o_labels o' = o_labels o /\ o_units o' = o_units o /\ o_content o' = o_content o).
Proof. exact empty_is_main_other_file. Qed.
Print Assumptions C18_main_sibling_other_file.

(** A name occupied by something that is not a dataset is refused and the group is left alone. *)
Theorem C18_non_dataset_refused :
  forall g r nm0,
  r_src_ok r = true -> r_dtype_ok r = true -> r_new_ok r = true -> r_grp_ok r = true -> r_name r = Some nm0 -> r_name_empty r = false ->
  mget (undash nm0) g = Some MGroup -> create_empty g r = (EErr EKeyE, g).
Proof. exact empty_refuses_non_dataset. Qed.
Print Assumptions C18_non_dataset_refused.

Theorem C18_bad_arguments_rejected :
  forall g r, r_src_ok r = false \/ r_dtype_ok r = false \/ r_new_ok r = false \/ r_grp_ok r = false \/ r_name r = None ->
  create_empty g r = (EErr ETypeE, g).
Proof. exact empty_bad_arguments. Qed.
Print Assumptions C18_bad_arguments_rejected.

(** non-vacuity: a 2 x 3 Main source with four referenced ancillaries; first call creates, second call returns the written one *)
Definition anc1 sh lab : member := MDset (mkDs sh 1 [] 0 5 (1, lab) (1, lab) []).
Definition hp : heap := [(1, anc1 [2; 1] [7]); (2, anc1 [2; 1] [7]); (3, anc1 [1; 3] [8]); (4, anc1 [1; 3] [8])].
Definition srcd : dsobj :=
  mkDs [2; 3] 0 [1; 3] 1 9 (0, []) (0, [])
       [(k_q, ASimple true 1); (k_u, ASimple true 2); (k_pi, ARef 1); (k_pv, ARef 2); (k_si, ARef 3); (k_sv, ARef 4)].
Definition rq (other : bool) := mkReq true srcd hp true 4 (Some ["N"; "-"; "w"]%char) false true other true [] false.
Example C18_example :
  is_main_spec (desc_of hp [] srcd) /\
  (exists d g', create_empty [] (rq false) = (EOk (["N"; "_"; "w"]%char, d, true), g') /\ o_content d = 0 /\ o_chunks d = [1; 3]) /\
  (exists d g', create_empty [] (rq true) = (EOk (["N"; "_"; "w"]%char, d, true), g') /\ length g' = 5).
Proof.
  split; [apply check_if_main_exact; vm_compute; reflexivity|].
  split; eexists; eexists; (split; [vm_compute; reflexivity|]); vm_compute; auto.
Qed.
