(** C17 -- CSV export reproduces every element with its position and spectroscopic values. *)
From Coq Require Import List Arith Lia Bool.
Require Import V.Base.ListAux V.Usid.Csv V.Usid.CsvProof.
Import ListNotations.

(** For ANY number k >= 1 of position dimensions, q spectroscopic dimensions, N positions and M >= 1 columns (cells are
    opaque texts without ',' or newline): parsed as a table, the file has one header row per spectroscopic dimension --
    k-1 empty cells, the descriptor, then that dimension's value for every column --, the row of position descriptors and
    dashes, and one row per position -- its value along every position dimension, then the data of that row.
    Hence element (r, c) sits in column k + c of row q + 1 + r, under its spectroscopic values and beside its position values. *)
Theorem C17_csv_cells_aligned :
  forall k m sdescs pdescs spec_vals pos_vals main dash,
    0 < k -> 0 < m -> length pdescs = k -> length sdescs = length spec_vals ->
    Forall (fun r => length r = m) spec_vals -> Forall (fun r => length r = k) pos_vals -> Forall (fun r => length r = m) main ->
    length pos_vals = length main ->
    csv_table k m sdescs pdescs spec_vals pos_vals main dash =
      map (fun dv => repeat [] (k - 1) ++ [[fst dv]] ++ map (fun v => [v]) (snd dv)) (combine sdescs spec_vals)
      ++ [map (fun v => [v]) pdescs ++ repeat [dash] m]
      ++ map (fun pd => map (fun v => [v]) (fst pd) ++ map (fun v => [v]) (snd pd)) (combine pos_vals main).
Proof. exact csv_cells_aligned. Qed.
Print Assumptions C17_csv_cells_aligned.

Theorem C17_no_overwrite_unless_forced : forall too_large, to_csv_decision too_large false true <> Written.
Proof. exact csv_no_overwrite. Qed.
Print Assumptions C17_no_overwrite_unless_forced.

Theorem C17_oversize_skipped_unless_forced : forall exists_, to_csv_decision true false exists_ = SkippedTooLarge.
Proof. exact csv_oversize_skipped. Qed.
Print Assumptions C17_oversize_skipped_unless_forced.

Theorem C17_forced_writes : forall too_large exists_, to_csv_decision too_large true exists_ = Written.
Proof. exact csv_forced. Qed.
Print Assumptions C17_forced_writes.

Example C17_example :
  csv_table 2 3 [100; 101] [200; 201] [[1;2;3]; [4;5;6]] [[10;11]; [12;13]] [[20;21;22]; [23;24;25]] 999 =
  [ [[]; [100]; [1]; [2]; [3]]; [[]; [101]; [4]; [5]; [6]]; [[200]; [201]; [999]; [999]; [999]];
    [[10]; [11]; [20]; [21]; [22]]; [[12]; [13]; [23]; [24]; [25]] ].
Proof. vm_compute. reflexivity. Qed.
