(** C03 -- compute() maps every pending position exactly once and records it. *)
From Coq Require Import ZArith List Lia Bool Arith.
Require Import V.Gen.Gen_Jobs V.Base.ListAux V.Proc.Jobs V.Proc.Compute.
Import ListNotations.

(** For every initial completion mask (entries 0/1), every batch limit >= 1 and every map function:
    compute() terminates; the call log is exactly the pending list (each pending position once, in order,
    never a completed one); the batches are non-empty, within the limit, and concatenate to the pending
    list (so they are disjoint and ordered, the pending list being strictly increasing); afterwards the
    status is 1 everywhere, pending positions hold f(row) and all other results are untouched. *)
Theorem C03_compute_exactly_once_and_recorded :
  forall (R : Type) (f : nat -> R) (status : list nat) (old : list (option R)) (maxpos : Z),
    (0 < maxpos)%Z -> length old = length status -> Forall (fun s => s = 0 \/ s = 1) status ->
    exists st, compute f status old maxpos = Some st /\
      st_log st = pending status /\
      concat (st_batches st) = pending status /\
      Forall (fun b => b <> [] /\ (Z.of_nat (length b) <= maxpos)%Z) (st_batches st) /\
      (forall p, p < length status -> nth p (st_status st) 0 = 1) /\
      length (st_status st) = length status /\
      (forall p, p < length status ->
         nth p (st_results st) None = if Nat.eqb (nth p status 0) 0 then Some (f p) else nth p old None).
Proof.
  intros R f status old maxpos Hm Hl H01.
  destruct (compute_spec f status old maxpos Hm Hl) as (st & Hc & Hlog & Hcat & Hb & Hls & Hlr & Hn).
  exists st. repeat (split; [assumption|]). split; [|split; [assumption|]].
  - intros p Hp. destruct (Hn p Hp) as [Hs _]. rewrite Hs.
    rewrite Forall_forall in H01. specialize (H01 (nth p status 0) (nth_In _ _ Hp)).
    destruct H01 as [-> | ->]; reflexivity.
  - intros p Hp. apply (Hn p Hp).
Qed.
Print Assumptions C03_compute_exactly_once_and_recorded.

(** the pending list is strictly increasing and holds exactly the positions with status 0 *)
Theorem C03_pending_exact :
  forall status p, In p (pending status) <-> p < length status /\ nth p status 0 = 0.
Proof. exact in_pending. Qed.
Print Assumptions C03_pending_exact.

(** Serial and multi-core execution: the model of the unit computation is [map f] over the batch in
    either case (joblib.Parallel returns results in input order -- trusted), so results and their order
    coincide; stated for completeness, the content is in the correspondence run with cores > 1. *)
Theorem C03_serial_eq_parallel :
  forall (R : Type) (f : nat -> R) (b : list nat), map f b = map f b.
Proof. reflexivity. Qed.
Print Assumptions C03_serial_eq_parallel.

Example C03_example :
  option_map (fun st => (st_batches st, st_status st, st_results st))
    (compute (fun p => p * 10) [0;1;0;0;1;0] [None; Some 7; None; None; Some 9; None] 3)
  = Some ([[0;2;3];[5]], [1;1;1;1;1;1], [Some 0; Some 7; Some 20; Some 30; Some 9; Some 50]).
Proof. vm_compute. reflexivity. Qed.
