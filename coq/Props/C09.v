(** C09 -- sizes, change-rate order and unit values are recovered from any regular grid. *)
From Coq Require Import List Arith Lia Bool Permutation Sorted ZArith.
Require Import V.Base.ListAux V.Base.Radix V.Base.Matrix V.Base.NdArray V.Usid.SortOrder V.Usid.ToND V.Usid.ToNDProof V.Usid.Grid V.Usid.UnitValues V.Usid.UnitValuesGrid V.Usid.SpecInds.
Import ListNotations.

(** For a regular grid with sizes [sz] (file order) stored in ANY rate order [order] (any permutation, any number of
    dimensions, sizes >= 1), given as the spectroscopic-shaped matrix with not more dimensions than points:
    (1) the reported order is a permutation of the dimensions ... *)
Theorem C09_sort_order_is_permutation :
  forall sz order, length sz <= prod (radices sz order) ->
    perm_of (get_sort_order (grid_spec sz order)) (length sz).
Proof. exact so_perm. Qed.
Print Assumptions C09_sort_order_is_permutation.

(** (2) ... that ranks the dimensions of size >= 2 exactly fastest -> slowest (as in [order]); ties / free placement
    only concern size-1 dimensions, which never change. *)
Theorem C09_sort_order_ranks_fast_to_slow :
  forall sz order, wf_grid sz order -> length sz <= prod (radices sz order) ->
    filter (fun d => negb (Nat.eqb (nth d sz 1) 1)) (get_sort_order (grid_spec sz order)) =
    filter (fun d => negb (Nat.eqb (nth d sz 1) 1)) order.
Proof. exact so_filter. Qed.
Print Assumptions C09_sort_order_ranks_fast_to_slow.

(** (3) the reported size of each dimension is its number of distinct indices = its size, in the reported order *)
Theorem C09_dimensionality_eq_sizes :
  forall sz order, wf_grid sz order -> length sz <= prod (radices sz order) ->
    let so := get_sort_order (grid_spec sz order) in
    get_dimensionality (grid_spec sz order) so = map (fun d => nth d sz 1) so.
Proof. intros sz order Hwf Hk. apply (dims_so sz order Hwf Hk). Qed.
Print Assumptions C09_dimensionality_eq_sizes.

Theorem C09_distinct_indices_per_dimension :
  forall sz order d, wf_grid sz order -> d < length sz ->
    unique_count (grid_row sz order d) = nth d sz 1 /\
    (forall x, In x (grid_row sz order d) <-> x < nth d sz 1).
Proof.
  intros sz order d Hwf Hd. split; [apply unique_count_grid_row; assumption|].
  intros x. apply in_grid_row; assumption.
Qed.
Print Assumptions C09_distinct_indices_per_dimension.

(** (4) the change count that drives the ranking, in closed form: 0 for a size-1 dimension, otherwise the product of the
    sizes of this and all slower dimensions -- strictly decreasing from fast to slow *)
Theorem C09_change_count_closed_form :
  forall sz order d, wf_grid sz order -> d < length sz ->
    change_count (grid_row sz order d) = keyj sz order (index_of d order).
Proof. intros. apply change_count_grid_row; assumption. Qed.
Print Assumptions C09_change_count_closed_form.

(** (5) consequence used by every consumer: the grid described by the computed order IS the stored grid *)
Theorem C09_grid_reconstructed_from_computed_order :
  forall sz order d n, wf_grid sz order -> length sz <= prod (radices sz order) ->
    d < length sz -> n < prod (radices sz order) ->
    let so := get_sort_order (grid_spec sz order) in
    nth n (grid_row sz order d) 0 = nth (index_of d so) (digits (radices sz so) n) 0.
Proof. intros sz order d n Hwf Hk Hd Hn. apply (grid_consistent sz order Hwf Hk d n Hd Hn). Qed.
Print Assumptions C09_grid_reconstructed_from_computed_order.

Example C09_example :
  get_sort_order (grid_spec [2;1;3;2] [2;0;3;1]) = [2;0;3;1] /\
  get_dimensionality (grid_spec [2;1;3;2] [2;0;3;1]) [2;0;3;1] = [3;2;2;1].
Proof. vm_compute. split; reflexivity. Qed.

(** Unit values.  For a regular grid with ANY number of dimensions, sizes >= 1, in ANY storage order, with ANY value function
    per dimension (values need not be distinct or monotone): get_unit_values (orientation given) returns for dimension d
    (file order) exactly the values f d 0, ..., f d (size_d - 1) -- one per index, in index order. *)
Theorem C09_unit_values_exact :
  forall (V : Type) (dv : V) (f : nat -> nat -> V) (sz so : list nat), wf_grid sz so ->
  let k := length sz in
  let vals := map (fun d => map (f d) (grid_row sz so d)) (seq 0 k) in
  get_unit_values dv (grid_spec sz so) vals (Some true) k = Ok (map (fun d => map (f d) (seq 0 (nth d sz 1))) (seq 0 k)).
Proof. exact @unit_values_grid. Qed.
Print Assumptions C09_unit_values_exact.

(** The algorithm on one row, for ANY row of the tile / repeat form (strictly increasing index values c, each repeated st
    times, the block tiled t times) -- this covers rows of sliced grids, whose indices do not start at 0 or are not
    contiguous: the result is the value found at the first occurrence of each index. *)
Theorem C09_unit_values_of_a_tiled_row :
  forall (c : list nat) (st t : nat), StronglySorted lt c -> 0 < length c -> 0 < st -> 0 < t ->
  forall (V : Type) (dv : V) (vals : list V),
  unit_values_row dv (tile (repeat_each c st) t) vals = Some (map (fun i => nth (i * st) vals dv) (seq 0 (length c))).
Proof. intros c st t H1 H2 H3 H4 V dv vals. exact (unit_values_row_grid c st t H1 H2 H3 H4 dv vals). Qed.
Print Assumptions C09_unit_values_of_a_tiled_row.

(** Values -> indices.  For a regular grid with ANY number of dimensions, sizes >= 1, in ANY storage order (not more
    dimensions than points), whose values are pairwise distinct within each dimension: create_spec_inds_from_vals rebuilds
    exactly the index matrix of the grid (the column loop is the mixed-radix successor: every changed position but the
    last wraps to 0, the last is incremented). *)
Theorem C09_indices_rebuilt_from_values :
  forall (sz so : list nat) (F : nat -> nat -> Z), wf_grid sz so ->
  length sz <= prod (radices sz so) -> 0 < length sz ->
  (forall d x y, x < nth d sz 1 -> y < nth d sz 1 -> F d x = F d y -> x = y) ->
  spec_inds_from_vals (map (fun d => map (F d) (grid_row sz so d)) (seq 0 (length sz))) = grid_spec sz so.
Proof. exact spec_inds_from_vals_grid. Qed.
Print Assumptions C09_indices_rebuilt_from_values.

(** its arithmetic core: the update rule applied to the positions where the digits of n and n+1 differ IS the successor *)
Theorem C09_update_is_mixed_radix_successor :
  forall rs n, Forall (fun r => 0 < r) rs -> S n < prod rs ->
  let ds := digits rs n in let ds' := digits rs (S n) in
  upd (filter (fun t => negb (Nat.eqb (nth t ds' 0) (nth t ds 0))) (seq 0 (length rs))) ds = ds'.
Proof. exact upd_succ. Qed.
Print Assumptions C09_update_is_mixed_radix_successor.
