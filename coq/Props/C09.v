(** C09 -- sizes, change-rate order and unit values are recovered from any regular grid. *)
From Coq Require Import List Arith Lia Bool Permutation.
Require Import V.Base.ListAux V.Base.Radix V.Base.Matrix V.Base.NdArray V.Usid.SortOrder V.Usid.ToND V.Usid.ToNDProof V.Usid.Grid.
Import ListNotations.

(** For a regular grid with sizes [sz] (file order) stored in ANY rate order [order] (any permutation, any number of
    dimensions, sizes >= 1), given as the spectroscopic-shaped matrix with not more dimensions than points:
    (1) the reported order is a permutation of the dimensions ... *)
Theorem C09_sort_order_is_permutation :
  forall sz order, length sz <= prod (radices sz order) ->
    perm_of (get_sort_order (grid_spec sz order)) (length sz).
Proof. exact so_perm. Qed.
Print Assumptions C09_sort_order_is_permutation.

(** (2) ... that ranks the dimensions of size >= 2 exactly fastest -> slowest (as in [order]); ties / free placement
    only concern size-1 dimensions, which never change. *)
Theorem C09_sort_order_ranks_fast_to_slow :
  forall sz order, wf_grid sz order -> length sz <= prod (radices sz order) ->
    filter (fun d => negb (Nat.eqb (nth d sz 1) 1)) (get_sort_order (grid_spec sz order)) =
    filter (fun d => negb (Nat.eqb (nth d sz 1) 1)) order.
Proof. exact so_filter. Qed.
Print Assumptions C09_sort_order_ranks_fast_to_slow.

(** (3) the reported size of each dimension is its number of distinct indices = its size, in the reported order *)
Theorem C09_dimensionality_eq_sizes :
  forall sz order, wf_grid sz order -> length sz <= prod (radices sz order) ->
    let so := get_sort_order (grid_spec sz order) in
    get_dimensionality (grid_spec sz order) so = map (fun d => nth d sz 1) so.
Proof. intros sz order Hwf Hk. apply (dims_so sz order Hwf Hk). Qed.
Print Assumptions C09_dimensionality_eq_sizes.

Theorem C09_distinct_indices_per_dimension :
  forall sz order d, wf_grid sz order -> d < length sz ->
    unique_count (grid_row sz order d) = nth d sz 1 /\
    (forall x, In x (grid_row sz order d) <-> x < nth d sz 1).
Proof.
  intros sz order d Hwf Hd. split; [apply unique_count_grid_row; assumption|].
  intros x. apply in_grid_row; assumption.
Qed.
Print Assumptions C09_distinct_indices_per_dimension.

(** (4) the change count that drives the ranking, in closed form: 0 for a size-1 dimension, otherwise the product of the
    sizes of this and all slower dimensions -- strictly decreasing from fast to slow *)
Theorem C09_change_count_closed_form :
  forall sz order d, wf_grid sz order -> d < length sz ->
    change_count (grid_row sz order d) = keyj sz order (index_of d order).
Proof. intros. apply change_count_grid_row; assumption. Qed.
Print Assumptions C09_change_count_closed_form.

(** (5) consequence used by every consumer: the grid described by the computed order IS the stored grid *)
Theorem C09_grid_reconstructed_from_computed_order :
  forall sz order d n, wf_grid sz order -> length sz <= prod (radices sz order) ->
    d < length sz -> n < prod (radices sz order) ->
    let so := get_sort_order (grid_spec sz order) in
    nth n (grid_row sz order d) 0 = nth (index_of d so) (digits (radices sz so) n) 0.
Proof. intros sz order d n Hwf Hk Hd Hn. apply (grid_consistent sz order Hwf Hk d n Hd Hn). Qed.
Print Assumptions C09_grid_reconstructed_from_computed_order.

Example C09_example :
  get_sort_order (grid_spec [2;1;3;2] [2;0;3;1]) = [2;0;3;1] /\
  get_dimensionality (grid_spec [2;1;3;2] [2;0;3;1]) [2;0;3;1] = [3;2;2;1].
Proof. vm_compute. split; reflexivity. Qed.
