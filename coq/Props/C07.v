(** C07 -- slicing returns exactly the selected elements, or refuses explicitly. *)
From Coq Require Import List Arith Lia Bool ZArith Sorted.
Require Import V.Base.ListAux V.Base.Matrix V.Base.NdArray V.Usid.ToND V.Usid.Slice V.Usid.SliceProof V.Usid.SliceNdProof.
Import ListNotations.

(** 2-D path: the selected rows are exactly those whose ancillary index along every dimension is in the selection ... *)
Theorem C07_rows_exactly_the_selected :
  forall vectors chosen r, In r (select vectors chosen) <->
    r < length vectors /\ forall d, d < length chosen -> In (nth d (nth r vectors []) 0) (nth d chosen []).
Proof. exact select_spec. Qed.
Print Assumptions C07_rows_exactly_the_selected.

(** ... in original (increasing) order, whatever order or repetition the caller used ... *)
Theorem C07_rows_in_original_order : forall vectors chosen, StronglySorted lt (select vectors chosen).
Proof. exact select_increasing. Qed.
Print Assumptions C07_rows_in_original_order.

(** ... and element (i, j) of the result is main[rows[i], cols[j]]. *)
Theorem C07_slice_2d_is_submatrix :
  forall (A : Type) (d : A) main pos spec_t psz ssz ps ss m,
    slice2d d main pos spec_t psz ssz ps ss true = Ok m ->
    exists pc sc, resolve_all psz ps = Ok pc /\ resolve_all ssz ss = Ok sc /\
      let rows := select pos pc in let cols := select spec_t sc in
      length m = length rows /\
      forall i j, i < length rows -> j < length cols ->
        nth j (nth i m []) d = nth (nth j cols 0) (nth (nth i rows 0) main []) d.
Proof. exact @slice2d_elements. Qed.
Print Assumptions C07_slice_2d_is_submatrix.

(** The eager path (squeeze, atleast_2d, shape-based transposition) returns the same matrix in the same orientation as
    the lazy path for EVERY result shape -- in particular square results are not transposed. *)
Theorem C07_squeeze_fixup_is_identity :
  forall (A : Type) (d : A) (m : list (list A)) c, rect m c -> 0 < length m -> 0 < c -> fixup d m = m.
Proof. exact @fixup_identity. Qed.
Print Assumptions C07_squeeze_fixup_is_identity.

Theorem C07_lazy_eq_eager :
  forall (A : Type) (d : A) main pos spec_t psz ssz ps ss m,
    slice2d d main pos spec_t psz ssz ps ss true = Ok m -> m <> [] -> 0 < ncols m ->
    slice2d d main pos spec_t psz ssz ps ss false = Ok m.
Proof. exact @slice2d_lazy_eq_eager. Qed.
Print Assumptions C07_lazy_eq_eager.

(** negative, out-of-range and empty requests are refused on the 2-D path *)
Theorem C07_2d_rejects :
  forall size s,
    (match s with
     | SInt i => (i < 0 \/ Z.of_nat size <= i)%Z
     | SList l => l = [] \/ Exists (fun i => (i < 0 \/ Z.of_nat size <= i)%Z) l
     | SSlice idxs => idxs = []
     | SAbsent => False
     end) -> exists e, resolve2d size s = Err e.
Proof. exact resolve2d_rejects. Qed.
Print Assumptions C07_2d_rejects.

(** N-D path, any number of axes, any mixture of integers (negative ones wrap once), slices and at most one index list:
    the result has the expected shape (an integer removes its axis, a slice / list keeps it with the number of chosen
    indices) and its element at index j is the element of the view at the index obtained by putting, on every sliced
    axis, the chosen index back ([expand]); every such index is in bounds. *)
Theorem C07_nd_slice_elements :
  forall (A : Type) (d : A) (view : nd A) (sels : list sel) (res : nd A),
  slice_nd d view sels = Ok res -> length sels <= length (nd_shape view) ->
  (forall i, i < length sels -> slice_in_range (nth i sels SAbsent) (nth i (nd_shape view) 1)) ->
  exists rs, length rs = length sels /\
    (forall i, i < length sels -> resolve_sel (nth i (nd_shape view) 1) (nth i sels SAbsent) = Ok (nth i rs RAll)) /\
    nd_shape res = result_shape rs 0 (nd_shape view) /\
    forall j, inbounds j (nd_shape res) ->
      nd_get d res j = nd_get d view (expand rs 0 j) /\ inbounds (expand rs 0 j) (nd_shape view).
Proof. exact @slice_nd_elements. Qed.
Print Assumptions C07_nd_slice_elements.

(** N-D path: an unsupported combination (more than one list index) is refused, never answered with rearranged data *)
Theorem C07_two_lists_refused : forall (A : Type) (d : A) (v : nd A) (sels : list sel),
  1 < length (filter is_list sels) -> exists e, slice_nd d v sels = Err e.
Proof. intros A d v sels H. unfold slice_nd. apply Nat.ltb_lt in H. rewrite H. destruct (negb _); eauto. Qed.
Print Assumptions C07_two_lists_refused.

Example C07_nd_example :
  let v := mkNd [2; 3; 2] [0; 1; 2; 3; 4; 5; 6; 7; 8; 9; 10; 11] in
  exists res, slice_nd 0 v [SInt 1; SSlice [0; 2]; SAbsent] = Ok res /\ nd_shape res = [2; 2] /\ nd_data res = [6; 7; 10; 11] /\
              expand [ROne 1; RMany [0; 2]; RAll] 0 [1; 0] = [1; 2; 0].
Proof. cbv zeta. eexists. split; [vm_compute; reflexivity|]. repeat split. Qed.

Example C07_example :
  fixup 0 [[1;2];[3;4]] = [[1;2];[3;4]] /\ fixup 0 [[1];[2];[3]] = [[1];[2];[3]] /\ fixup 0 [[1;2;3]] = [[1;2;3]] /\
  select [[0;0];[1;0];[0;1];[1;1]] [[1];[0;1]] = [1;3].
Proof. vm_compute. repeat split. Qed.
