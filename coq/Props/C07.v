(** C07 -- slicing returns exactly the selected elements, or refuses explicitly. *)
From Coq Require Import List Arith Lia Bool ZArith Sorted.
Require Import V.Base.ListAux V.Base.Matrix V.Base.NdArray V.Usid.ToND V.Usid.Slice V.Usid.SliceProof.
Import ListNotations.

(** 2-D path: the selected rows are exactly those whose ancillary index along every dimension is in the selection ... *)
Theorem C07_rows_exactly_the_selected :
  forall vectors chosen r, In r (select vectors chosen) <->
    r < length vectors /\ forall d, d < length chosen -> In (nth d (nth r vectors []) 0) (nth d chosen []).
Proof. exact select_spec. Qed.
Print Assumptions C07_rows_exactly_the_selected.

(** ... in original (increasing) order, whatever order or repetition the caller used ... *)
Theorem C07_rows_in_original_order : forall vectors chosen, StronglySorted lt (select vectors chosen).
Proof. exact select_increasing. Qed.
Print Assumptions C07_rows_in_original_order.

(** ... and element (i, j) of the result is main[rows[i], cols[j]]. *)
Theorem C07_slice_2d_is_submatrix :
  forall (A : Type) (d : A) main pos spec_t psz ssz ps ss m,
    slice2d d main pos spec_t psz ssz ps ss true = Ok m ->
    exists pc sc, resolve_all psz ps = Ok pc /\ resolve_all ssz ss = Ok sc /\
      let rows := select pos pc in let cols := select spec_t sc in
      length m = length rows /\
      forall i j, i < length rows -> j < length cols ->
        nth j (nth i m []) d = nth (nth j cols 0) (nth (nth i rows 0) main []) d.
Proof. exact @slice2d_elements. Qed.
Print Assumptions C07_slice_2d_is_submatrix.

(** The eager path (squeeze, atleast_2d, shape-based transposition) returns the same matrix in the same orientation as
    the lazy path for EVERY result shape -- in particular square results are not transposed. *)
Theorem C07_squeeze_fixup_is_identity :
  forall (A : Type) (d : A) (m : list (list A)) c, rect m c -> 0 < length m -> 0 < c -> fixup d m = m.
Proof. exact @fixup_identity. Qed.
Print Assumptions C07_squeeze_fixup_is_identity.

Theorem C07_lazy_eq_eager :
  forall (A : Type) (d : A) main pos spec_t psz ssz ps ss m,
    slice2d d main pos spec_t psz ssz ps ss true = Ok m -> m <> [] -> 0 < ncols m ->
    slice2d d main pos spec_t psz ssz ps ss false = Ok m.
Proof. exact @slice2d_lazy_eq_eager. Qed.
Print Assumptions C07_lazy_eq_eager.

(** negative, out-of-range and empty requests are refused on the 2-D path *)
Theorem C07_2d_rejects :
  forall size s,
    (match s with
     | SInt i => (i < 0 \/ Z.of_nat size <= i)%Z
     | SList l => l = [] \/ Exists (fun i => (i < 0 \/ Z.of_nat size <= i)%Z) l
     | SSlice idxs => idxs = []
     | SAbsent => False
     end) -> exists e, resolve2d size s = Err e.
Proof. exact resolve2d_rejects. Qed.
Print Assumptions C07_2d_rejects.

(** N-D path: an unsupported combination (more than one list index) is refused, never answered with rearranged data *)
Theorem C07_two_lists_refused : forall (A : Type) (d : A) (v : nd A) (sels : list sel),
  1 < length (filter is_list sels) -> exists e, slice_nd d v sels = Err e.
Proof. intros A d v sels H. unfold slice_nd. apply Nat.ltb_lt in H. rewrite H. destruct (negb _); eauto. Qed.
Print Assumptions C07_two_lists_refused.

Example C07_example :
  fixup 0 [[1;2];[3;4]] = [[1;2];[3;4]] /\ fixup 0 [[1];[2];[3]] = [[1];[2];[3]] /\ fixup 0 [[1;2;3]] = [[1;2;3]] /\
  select [[0;0];[1;0];[0;1];[1;1]] [[1];[0;1]] = [1;3].
Proof. vm_compute. repeat split. Qed.
