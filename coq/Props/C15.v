(** C15 -- batch sizing honours the memory/core budget; compute() terminates or errs. *)
From Coq Require Import ZArith QArith Qround Qabs Bool Lia.
Require Import V.Gen.Gen_Budget V.Gen.Gen_Jobs V.Proc.Budget V.Proc.Jobs.

(** Whenever __set_memory accepts its arguments, positions/read x row bytes x multiplier x workers <= granted memory. *)
Theorem C15_budget_respected :
  forall avail ncores nranks itemsize ncols mult limit_none limit_is_int limit_mb pos,
    (0 < ncores * nranks)%Z -> (0 < itemsize * ncols)%Z ->
    set_memory avail ncores nranks itemsize ncols true mult limit_none limit_is_int limit_mb = Ok pos ->
    inject_Z pos * (inject_Z (itemsize * ncols) * Qabs mult) * inject_Z (ncores * nranks)
      <= inject_Z (granted_mem avail limit_none limit_mb)
    /\ (granted_mem avail limit_none limit_mb <= avail)%Z.
Proof.
  intros avail ncores nranks itemsize ncols mult ln li lmb pos Hw Hb H.
  split; [|apply granted_le_avail].
  destruct (Qlt_le_dec (Qabs mult) 1) as [Hlt|Hge].
  - destruct (set_memory_rejects avail ncores nranks itemsize ncols true mult ln li lmb) as [e He];
      [right; left; intro Hc; apply (Qlt_not_le _ _ Hlt Hc)| congruence].
  - destruct (ln || li) eqn:El.
    + rewrite set_memory_accepts in H by assumption. injection H as <-.
      apply (budget_respected ncores nranks itemsize ncols mult Hw Hb Hge).
    + destruct (set_memory_rejects avail ncores nranks itemsize ncols true mult ln li lmb) as [e He];
        [right; right; exact El| congruence].
Qed.
Print Assumptions C15_budget_respected.

(** A larger limit or more available memory never yields a smaller batch. *)
Theorem C15_budget_monotone :
  forall a1 a2 l1 l2 ncores nranks itemsize ncols mult ln li p1 p2,
    (0 < ncores * nranks)%Z -> (0 < itemsize * ncols)%Z -> (0 <= a1 <= a2)%Z -> (Z.abs l1 <= Z.abs l2)%Z ->
    set_memory a1 ncores nranks itemsize ncols true mult ln li l1 = Ok p1 ->
    set_memory a2 ncores nranks itemsize ncols true mult ln li l2 = Ok p2 ->
    (0 <= p1 <= p2)%Z.
Proof.
  intros a1 a2 l1 l2 ncores nranks itemsize ncols mult ln li p1 p2 Hw Hb Ha Hl H1 H2.
  destruct (Qlt_le_dec (Qabs mult) 1) as [Hlt|Hge].
  - destruct (set_memory_rejects a1 ncores nranks itemsize ncols true mult ln li l1) as [e He];
      [right; left; intro Hc; apply (Qlt_not_le _ _ Hlt Hc)| congruence].
  - destruct (ln || li) eqn:El.
    + rewrite set_memory_accepts in H1, H2 by assumption. injection H1 as <-. injection H2 as <-.
      split.
      * apply budget_nonneg; try assumption. apply granted_nonneg; lia.
      * apply budget_monotone; try assumption.
        transitivity (granted_mem a2 ln l1); [apply granted_mono_avail; lia|].
        destruct ln; [unfold granted_mem; apply Z.le_refl| apply granted_mono_limit; lia].
    + destruct (set_memory_rejects a1 ncores nranks itemsize ncols true mult ln li l1) as [e He];
        [right; right; exact El| congruence].
Qed.
Print Assumptions C15_budget_monotone.

(** The worker count stays between 1 and the machine's logical cores. *)
Theorem C15_cores_in_range :
  forall ncpu cn ci cores c m s, (1 <= ncpu)%Z ->
    set_cores ncpu cn ci cores = Ok (c, m, s) -> (1 <= c <= ncpu)%Z.
Proof. intros. eapply set_cores_range; eassumption. Qed.
Print Assumptions C15_cores_in_range.

Theorem C15_recommend_in_range :
  forall ncpu jobs ji rn ri req mn mf lengthy c, (1 <= ncpu)%Z ->
    recommend_cpu_cores ncpu jobs ji rn ri req mn mf lengthy = Ok c -> (1 <= c <= ncpu)%Z.
Proof. exact recommend_range. Qed.
Print Assumptions C15_recommend_in_range.

(** With no pending jobs in a batch the recommender refuses (this is what stops compute() when
    the budget admits no row: the batch is empty, see C15_zero_budget_no_progress). *)
Theorem C15_recommend_rejects_empty_batch :
  forall ncpu rn ri req mn mf lengthy, (1 <= ncpu)%Z ->
    (mn = true \/ (0 <= mf < ncpu)%Z) -> (rn = true \/ ri = true) ->
    exists e, recommend_cpu_cores ncpu 0 true rn ri req mn mf lengthy = Err e.
Proof.
  intros ncpu rn ri req mn mf lengthy Hn Hm Hr. unfold recommend_cpu_cores.
  destruct mn; simpl.
  - destruct rn; simpl; [eauto|]. destruct ri; simpl; [eauto|]. destruct Hr; discriminate.
  - destruct Hm as [Hm|Hm]; [discriminate|].
    destruct (Z.ltb_spec mf 0); [lia|]. destruct (Z.leb_spec ncpu mf); [lia|]. simpl.
    destruct rn; simpl; [eauto|]. destruct ri; simpl; [eauto|]. destruct Hr; discriminate.
Qed.
Print Assumptions C15_recommend_rejects_empty_batch.

(** budget admits >= 1 row  <->  batch size >= 1 (then compute() terminates: C14_batches_within_range / C03);
    batch size 0: the cursor cannot advance and every batch is empty. *)
Theorem C15_admits_row_iff :
  forall granted ncores nranks itemsize ncols mult,
    (0 < ncores * nranks)%Z -> (0 < itemsize * ncols)%Z -> 1 <= Qabs mult ->
    (inject_Z (itemsize * ncols) * Qabs mult * inject_Z (ncores * nranks) <= inject_Z granted <->
     (1 <= Qfloor (budget_quot granted ncores nranks itemsize ncols mult))%Z).
Proof. intros. apply budget_admits_row; assumption. Qed.
Print Assumptions C15_admits_row_iff.

Theorem C15_zero_budget_no_progress :
  forall fuel start rank_end e0, (start < rank_end)%Z ->
    batches fuel start rank_end 0 e0 = None /\
    chunk_lo start rank_end 0 e0 = chunk_hi start rank_end 0 e0.
Proof.
  intros fuel start rank_end e0 H. split; [apply batches_zero_limit_stuck; exact H|].
  unfold chunk_lo, chunk_hi. destruct (Z.ltb_spec start rank_end); lia.
Qed.
Print Assumptions C15_zero_budget_no_progress.

(** non-vacuity: 16 MB limit, 2 workers, rows of 800 bytes, multiplier 2.5 *)
Example C15_example :
  set_memory (2^33) 2 1 8 100 true (5#2) false true 16 = Ok 4194%Z.
Proof. vm_compute. reflexivity. Qed.
