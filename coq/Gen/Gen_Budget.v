(* GENERATED on every check run by harness/gen_kernels.py from pyUSID/processing/process.py, comp_utils.py -- do not edit *)

From Coq Require Import ZArith QArith Qround Qabs Qminmax Bool.
Inductive exn := TypeError | ValueError | ZeroDivisionError.
Inductive res (A : Type) := Ok (a : A) | Err (e : exn).
Arguments Ok {A} a.
Arguments Err {A} e.
Definition Qtrunc (q : Q) : Z := if Qle_bool 0 q then Qfloor q else Qceiling q.
Local Open Scope Z_scope.

(* Process.__set_cores, branch self.mpi_comm is None.  cores_none: cores is None; cores_is_int: isinstance(cores,int) *)
Definition set_cores (ncpu : Z) (cores_none cores_is_int : bool) (cores : Z) : res (Z * Z * Z) :=
  if (andb (andb true (negb cores_none)) (negb cores_is_int)) then Err TypeError else (Ok ((if cores_none then (Z.max (1) (ncpu - ((1) + (Z.b2z ((4) <? ncpu))))) else (Z.max (1) (Z.min ncpu (Z.abs cores)))), (0), (1))).

(* Process.__set_memory over exact rationals (a Python float is a dyadic rational) *)
Definition set_memory (avail ncores nranks itemsize ncols : Z) (mult_is_float : bool) (mult : Q)
    (limit_none limit_is_int : bool) (limit_mb : Z) : res Z :=
  if (andb true (negb mult_is_float)) then Err TypeError else (if (andb true (negb (Qle_bool (inject_Z (1)) (Qabs mult)))) then Err ValueError else (if (andb (andb true (negb limit_none)) (negb limit_is_int)) then Err TypeError else (if (andb true ((ncores * nranks) =? 0)) then Err ZeroDivisionError else (if (andb true (Qeq_bool (Qmult (inject_Z (itemsize * ncols)) (Qabs mult)) 0)) then Err ZeroDivisionError else (Ok (Qtrunc (inject_Z (Qfloor (Qdiv (Qdiv (inject_Z (Z.min avail (if limit_none then avail else ((Z.abs limit_mb) * ((1024) ^ (2)))))) (inject_Z (ncores * nranks))) (Qmult (inject_Z (itemsize * ncols)) (Qabs mult))))))))))).

Definition granted_mem (avail : Z) (limit_none : bool) (limit_mb : Z) : Z :=
  (Z.min avail (if limit_none then avail else ((Z.abs limit_mb) * ((1024) ^ (2))))).

(* comp_utils.recommend_cpu_cores *)
Definition recommend_cpu_cores (ncpu num_jobs : Z) (jobs_is_int : bool) (req_none req_is_int : bool) (req : Z)
    (minfree_none : bool) (minfree : Z) (lengthy : bool) : res Z :=
  if (andb (andb true (negb minfree_none)) (negb true)) then Err TypeError else (if (andb (andb true (negb minfree_none)) (orb (minfree <? (0)) (ncpu <=? minfree))) then Err ValueError else (if (andb (andb true (negb req_none)) (negb req_is_int)) then Err TypeError else (if (andb true (negb jobs_is_int)) then Err TypeError else (if (andb true (num_jobs <? (1))) then Err ValueError else (if (andb true ((if req_none then (Z.max (1) (ncpu - (if (negb minfree_none) then minfree else (if ((4) <? ncpu) then (2) else (if (ncpu =? (1)) then (0) else (1)))))) else (if (orb (req <? (0)) (ncpu <? req)) then (Z.max (Z.min (Z.abs req) ncpu) (1)) else req)) =? 0)) then Err ZeroDivisionError else (if (andb (andb (andb true (negb lengthy)) (andb ((1) <? (if req_none then (Z.max (1) (ncpu - (if (negb minfree_none) then minfree else (if ((4) <? ncpu) then (2) else (if (ncpu =? (1)) then (0) else (1)))))) else (if (orb (req <? (0)) (ncpu <? req)) then (Z.max (Z.min (Z.abs req) ncpu) (1)) else req))) ((Z.max (Qtrunc (Qdiv (inject_Z num_jobs) (inject_Z (if req_none then (Z.max (1) (ncpu - (if (negb minfree_none) then minfree else (if ((4) <? ncpu) then (2) else (if (ncpu =? (1)) then (0) else (1)))))) else (if (orb (req <? (0)) (ncpu <? req)) then (Z.max (Z.min (Z.abs req) ncpu) (1)) else req))))) (1)) <? (20)))) (((2) * (20)) =? 0)) then Err ZeroDivisionError else (Ok (if (negb lengthy) then (if (andb ((1) <? (if req_none then (Z.max (1) (ncpu - (if (negb minfree_none) then minfree else (if ((4) <? ncpu) then (2) else (if (ncpu =? (1)) then (0) else (1)))))) else (if (orb (req <? (0)) (ncpu <? req)) then (Z.max (Z.min (Z.abs req) ncpu) (1)) else req))) ((Z.max (Qtrunc (Qdiv (inject_Z num_jobs) (inject_Z (if req_none then (Z.max (1) (ncpu - (if (negb minfree_none) then minfree else (if ((4) <? ncpu) then (2) else (if (ncpu =? (1)) then (0) else (1)))))) else (if (orb (req <? (0)) (ncpu <? req)) then (Z.max (Z.min (Z.abs req) ncpu) (1)) else req))))) (1)) <? (20))) then (Z.max (1) (Z.min (if req_none then (Z.max (1) (ncpu - (if (negb minfree_none) then minfree else (if ((4) <? ncpu) then (2) else (if (ncpu =? (1)) then (0) else (1)))))) else (if (orb (req <? (0)) (ncpu <? req)) then (Z.max (Z.min (Z.abs req) ncpu) (1)) else req)) (Qtrunc (Qdiv (inject_Z num_jobs) (inject_Z ((2) * (20))))))) else (if req_none then (Z.max (1) (ncpu - (if (negb minfree_none) then minfree else (if ((4) <? ncpu) then (2) else (if (ncpu =? (1)) then (0) else (1)))))) else (if (orb (req <? (0)) (ncpu <? req)) then (Z.max (Z.min (Z.abs req) ncpu) (1)) else req))) else (if req_none then (Z.max (1) (ncpu - (if (negb minfree_none) then minfree else (if ((4) <? ncpu) then (2) else (if (ncpu =? (1)) then (0) else (1)))))) else (if (orb (req <? (0)) (ncpu <? req)) then (Z.max (Z.min (Z.abs req) ncpu) (1)) else req)))))))))).
