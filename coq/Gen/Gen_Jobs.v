(* GENERATED on every check run by harness/gen_kernels.py from pyUSID/processing/process.py -- do not edit *)

From Coq Require Import ZArith Bool.
Local Open Scope Z_scope.

(* Process.__assign_job_indices : n = number of pending positions *)
Definition assign_start (rank size n maxpos : Z) : Z :=
  (rank * (n / size)).

Definition assign_rank_end (rank size n maxpos : Z) : Z :=
  (if (rank =? (size - (1))) then n else ((rank + (1)) * (n / size))).

Definition assign_end (rank size n maxpos : Z) : Z :=
  (Z.min ((rank + (1)) * (n / size)) ((rank * (n / size)) + maxpos)).

(* Process._read_data_chunk : has_data, new end cursor, window of the pending list read *)
Definition chunk_has_data (start rank_end maxpos end0 : Z) : bool :=
  (if (start <? rank_end) then true else false).

Definition chunk_end (start rank_end maxpos end0 : Z) : Z :=
  (if (start <? rank_end) then (Z.min rank_end (start + maxpos)) else end0).

Definition chunk_lo (start rank_end maxpos end0 : Z) : Z :=
  start.

Definition chunk_hi (start rank_end maxpos end0 : Z) : Z :=
  (if (start <? rank_end) then (Z.min rank_end (start + maxpos)) else start).

(* compute(): loop statement order checked: compute, write, cursor := end, flush, mark, read next *)
Definition loop_order_checked : bool := true.
