(** Batch sizing and core selection (Process.__set_memory / __set_cores,
    comp_utils.recommend_cpu_cores).  The definitions reasoned about are
    generated from the Python source (Gen/Gen_Budget.v); arithmetic is over exact
    rationals (IEEE rounding of the two divisions and one product is the stated
    idealisation). *)
From Coq Require Import ZArith QArith Qround Qabs Qminmax Bool Lia Lqa.
Require Import V.Gen.Gen_Budget.

Lemma Qtrunc_inject z : Qtrunc (inject_Z z) = z.
Proof. unfold Qtrunc. destruct (Qle_bool 0 (inject_Z z)); [apply Qfloor_Z| apply Qceiling_Z]. Qed.

Lemma Qpos_neq0 x : 0 < x -> ~ x == 0.
Proof. intros H E. rewrite E in H. exact (Qlt_irrefl _ H). Qed.

(** hand-written reading of what __set_memory computes *)
Definition bytes_per_pos (itemsize ncols : Z) (mult : Q) : Q := inject_Z (itemsize * ncols) * Qabs mult.
Definition workers (ncores nranks : Z) : Q := inject_Z (ncores * nranks).
Definition budget_quot (granted : Z) (ncores nranks itemsize ncols : Z) (mult : Q) : Q :=
  (inject_Z granted / workers ncores nranks) / bytes_per_pos itemsize ncols mult.

(** the generated function, on accepted arguments, is the floor of that quotient *)
Lemma set_memory_accepts avail ncores nranks itemsize ncols mult limit_none limit_is_int limit_mb :
  (0 < ncores * nranks)%Z -> (0 < itemsize * ncols)%Z ->
  1 <= Qabs mult -> (limit_none || limit_is_int) = true ->
  set_memory avail ncores nranks itemsize ncols true mult limit_none limit_is_int limit_mb =
    Ok (Qfloor (budget_quot (granted_mem avail limit_none limit_mb) ncores nranks itemsize ncols mult)).
Proof.
  intros Hw Hb Hm Hl. unfold set_memory.
  assert (Qle_bool (inject_Z 1) (Qabs mult) = true) as -> by (apply Qle_bool_iff; exact Hm).
  assert ((ncores * nranks =? 0)%Z = false) as -> by (apply Z.eqb_neq; lia).
  assert (Qeq_bool (inject_Z (itemsize * ncols) * Qabs mult) 0 = false) as ->.
  { destruct (Qeq_bool (inject_Z (itemsize * ncols) * Qabs mult) 0) eqn:E; [|reflexivity].
    apply Qeq_bool_eq in E. exfalso. revert E. apply Qpos_neq0. apply Qmult_lt_0_compat.
    - replace 0 with (inject_Z 0) by reflexivity. rewrite <- Zlt_Qlt. exact Hb.
    - eapply Qlt_le_trans; [|exact Hm]. reflexivity. }
  destruct limit_none, limit_is_int; try discriminate; cbn [andb negb]; rewrite Qtrunc_inject; reflexivity.
Qed.

Lemma set_memory_rejects avail ncores nranks itemsize ncols mult_is_float mult limit_none limit_is_int limit_mb :
  mult_is_float = false \/ ~ (1 <= Qabs mult) \/ (limit_none || limit_is_int) = false ->
  exists e, set_memory avail ncores nranks itemsize ncols mult_is_float mult limit_none limit_is_int limit_mb = Err e.
Proof.
  intros H. unfold set_memory. destruct mult_is_float; cbn [andb negb]; [|eauto].
  destruct (Qle_bool (inject_Z 1) (Qabs mult)) eqn:E; cbn [andb negb]; [|eauto].
  apply Qle_bool_iff in E.
  destruct H as [H|[H|H]]; [discriminate|contradiction|].
  destruct limit_none, limit_is_int; try discriminate; cbn [andb negb]; eauto.
Qed.

Section Budget.
  Variables (ncores nranks itemsize ncols : Z) (mult : Q).
  Hypothesis Hw : (0 < ncores * nranks)%Z.
  Hypothesis Hb : (0 < itemsize * ncols)%Z.
  Hypothesis Hm : 1 <= Qabs mult.

  Lemma workers_pos : 0 < workers ncores nranks.
  Proof. unfold workers. replace 0 with (inject_Z 0) by reflexivity. rewrite <- Zlt_Qlt. exact Hw. Qed.

  Lemma bpp_pos : 0 < bytes_per_pos itemsize ncols mult.
  Proof.
    unfold bytes_per_pos. apply Qmult_lt_0_compat.
    - replace 0 with (inject_Z 0) by reflexivity. rewrite <- Zlt_Qlt. exact Hb.
    - eapply Qlt_le_trans; [|exact Hm]. reflexivity.
  Qed.

  (** positions per read x bytes per position x multiplier x workers never exceeds the granted memory *)
  Lemma budget_respected granted :
    inject_Z (Qfloor (budget_quot granted ncores nranks itemsize ncols mult))
      * bytes_per_pos itemsize ncols mult * workers ncores nranks <= inject_Z granted.
  Proof.
    pose proof workers_pos as HW. pose proof bpp_pos as HB.
    set (q := budget_quot granted ncores nranks itemsize ncols mult).
    pose proof (Qfloor_le q) as Hf.
    assert (q * bytes_per_pos itemsize ncols mult * workers ncores nranks == inject_Z granted) as E.
    { unfold q, budget_quot. field. split; apply Qpos_neq0; assumption. }
    rewrite <- E.
    apply Qmult_le_compat_r; [|apply Qlt_le_weak; exact HW].
    apply Qmult_le_compat_r; [exact Hf|apply Qlt_le_weak; exact HB].
  Qed.

  (** the batch size does not decrease when the budget grows *)
  Lemma budget_monotone g1 g2 : (g1 <= g2)%Z ->
    (Qfloor (budget_quot g1 ncores nranks itemsize ncols mult) <= Qfloor (budget_quot g2 ncores nranks itemsize ncols mult))%Z.
  Proof.
    intros Hg. apply Qfloor_resp_le. unfold budget_quot.
    pose proof workers_pos as HW. pose proof bpp_pos as HB.
    unfold Qdiv.
    apply Qmult_le_compat_r; [|apply Qlt_le_weak, Qinv_lt_0_compat; exact HB].
    apply Qmult_le_compat_r; [|apply Qlt_le_weak, Qinv_lt_0_compat; exact HW].
    rewrite <- Zle_Qle. exact Hg.
  Qed.

  Lemma budget_nonneg granted : (0 <= granted)%Z -> (0 <= Qfloor (budget_quot granted ncores nranks itemsize ncols mult))%Z.
  Proof.
    intros Hg. replace 0%Z with (Qfloor (inject_Z 0)) by apply Qfloor_Z. apply Qfloor_resp_le.
    unfold budget_quot. pose proof workers_pos as HW. pose proof bpp_pos as HB.
    unfold Qdiv. apply Qmult_le_0_compat; [|apply Qlt_le_weak, Qinv_lt_0_compat; exact HB].
    apply Qmult_le_0_compat; [|apply Qlt_le_weak, Qinv_lt_0_compat; exact HW].
    replace 0 with (inject_Z 0) by reflexivity. rewrite <- Zle_Qle. exact Hg.
  Qed.

  (** at least one row fits  <->  the batch size is >= 1 *)
  Lemma budget_admits_row granted :
    bytes_per_pos itemsize ncols mult * workers ncores nranks <= inject_Z granted <->
    (1 <= Qfloor (budget_quot granted ncores nranks itemsize ncols mult))%Z.
  Proof.
    pose proof workers_pos as HW. pose proof bpp_pos as HB.
    set (q := budget_quot granted ncores nranks itemsize ncols mult).
    assert (q * bytes_per_pos itemsize ncols mult * workers ncores nranks == inject_Z granted) as E.
    { unfold q, budget_quot. field. split; apply Qpos_neq0; assumption. }
    assert (0 < bytes_per_pos itemsize ncols mult * workers ncores nranks) as HP by (apply Qmult_lt_0_compat; assumption).
    pose proof (Qfloor_le q) as Hf. pose proof (Qlt_floor q) as Hf2.
    split; intros H.
    - destruct (Z_le_gt_dec 1 (Qfloor q)) as [Hok|Hbad]; [exact Hok|]. exfalso.
      assert (inject_Z (Qfloor q + 1) <= 1) as Hle.
      { change 1 with (inject_Z 1). rewrite <- Zle_Qle. lia. }
      assert (q < 1) as Hq1 by (eapply Qlt_le_trans; eassumption).
      clear Hf Hf2 Hle Hbad.
      generalize dependent (bytes_per_pos itemsize ncols mult). intros b HB.
      generalize dependent (workers ncores nranks). intros w HW.
      generalize dependent (inject_Z granted). intros g E HP H. nra.
    - assert (1 <= q) as Hq1.
      { eapply Qle_trans; [|exact Hf]. change 1 with (inject_Z 1). rewrite <- Zle_Qle. exact H. }
      clear Hf Hf2 H.
      generalize dependent (bytes_per_pos itemsize ncols mult). intros b HB.
      generalize dependent (workers ncores nranks). intros w HW.
      generalize dependent (inject_Z granted). intros g E HP. nra.
  Qed.
End Budget.

Lemma granted_mono_limit avail l1 l2 : (0 <= avail)%Z -> (Z.abs l1 <= Z.abs l2)%Z ->
  (granted_mem avail false l1 <= granted_mem avail false l2)%Z.
Proof. intros Ha Hl. unfold granted_mem. change (1024 ^ 2)%Z with 1048576%Z. lia. Qed.

Lemma granted_nonneg avail ln l : (0 <= avail)%Z -> (0 <= granted_mem avail ln l)%Z.
Proof.
  intros Ha. unfold granted_mem. destruct ln; [lia|].
  pose proof (Z.abs_nonneg l). change (1024 ^ 2)%Z with 1048576%Z. lia.
Qed.

Lemma granted_le_avail avail ln l : (granted_mem avail ln l <= avail)%Z.
Proof. unfold granted_mem. destruct ln; lia. Qed.

Lemma granted_mono_avail a1 a2 ln l : (a1 <= a2)%Z -> (granted_mem a1 ln l <= granted_mem a2 ln l)%Z.
Proof. intros H. unfold granted_mem. destruct ln; lia. Qed.

(** * cores *)
Lemma set_cores_range ncpu cn ci cores c m s : (1 <= ncpu)%Z ->
  set_cores ncpu cn ci cores = Ok (c, m, s) -> (1 <= c <= ncpu)%Z /\ m = 0%Z /\ s = 1%Z.
Proof.
  intros Hn. unfold set_cores.
  destruct cn, ci; simpl; try discriminate; intros [= <- <- <-]; repeat split; try lia;
    destruct (Z.ltb_spec 4 ncpu); simpl; lia.
Qed.

Ltac zb :=
  repeat match goal with
  | |- context [(?a <? ?b)%Z] => destruct (Z.ltb_spec a b)
  | |- context [(?a <=? ?b)%Z] => destruct (Z.leb_spec a b)
  | |- context [(?a =? ?b)%Z] => destruct (Z.eqb_spec a b)
  | H : context [(?a <? ?b)%Z] |- _ => destruct (Z.ltb_spec a b)
  | H : context [(?a <=? ?b)%Z] |- _ => destruct (Z.leb_spec a b)
  | H : context [(?a =? ?b)%Z] |- _ => destruct (Z.eqb_spec a b)
  end.

Lemma recommend_range ncpu jobs ji rn ri req mn mf lengthy c : (1 <= ncpu)%Z ->
  recommend_cpu_cores ncpu jobs ji rn ri req mn mf lengthy = Ok c -> (1 <= c <= ncpu)%Z.
Proof.
  intros Hn. unfold recommend_cpu_cores.
  destruct mn, rn, ri, ji, lengthy; simpl; try discriminate;
    repeat match goal with
    | |- context [if ?b then Err _ else _] => let E := fresh "E" in destruct b eqn:E; try discriminate
    end;
    intros [= <-]; zb; simpl in *; try lia.
Qed.
