(** Process._check_for_duplicates / check_for_old / compute(override) decision: which stored results are
    returned, resumed, or ignored.  Composes the naming model (C13) and the parameter-matching model (C16). *)
From Coq Require Import List Arith Lia Bool ZArith.
Require Import V.Base.ListAux V.H5.Naming V.H5.Attrs.
Import ListNotations.

(** the status dataset of a group, as the constructor sees it *)
Inductive status_obj :=
| StNone                                           (* no object named completed_positions *)
| StNotDataset                                     (* present but not a dataset *)
| StDset (len_ok dtype_ok : bool) (vals : list nat). (* len_ok: 1-D with one entry per position; dtype_ok: uint8 *)

Record rgroup := mkG {
  g_name : str;
  g_attrs : attrs;                  (* parameter attributes (keys as ids) *)
  g_status : status_obj;
  g_last_pixel : option Z }.        (* legacy attribute (integer) *)

Inductive cls := Duplicate | Partial | Ignored.

Definition sum_nat (l : list nat) : nat := fold_left Nat.add l 0.

(** classification of one parameter-matching group (cases 1, 1.A, 1.B, 2, 3, 3.A, 3.B of _check_for_duplicates) *)
Definition classify (N : nat) (g : rgroup) : cls :=
  match g_status g with
  | StNotDataset => Ignored
  | StDset len_ok dtype_ok vals =>
      if negb len_ok || negb dtype_ok then Ignored
      else if existsb (fun v => Nat.ltb 1 v) vals then Ignored          (* malformed record: marks other than 0 / 1 *)
      else if Nat.ltb (sum_nat vals) N then Partial else Duplicate
  | StNone =>
      match g_last_pixel g with
      | None => Ignored
      | Some lp => if (lp <? Z.of_nat N)%Z then Partial else Duplicate
      end
  end.

(** what the constructor writes into a group it looks at *)
Inductive ctor_write := WCreateStatus (marked : Z).   (* legacy group upgraded: status dataset created from last_pixel *)
Definition ctor_writes (N : nat) (g : rgroup) : list ctor_write :=
  match g_status g with
  | StDset len_ok dtype_ok vals =>
      if negb len_ok || negb dtype_ok then []
      else if existsb (fun v => Nat.ltb 1 v) vals then []
      else []
  | StNotDataset => []
  | StNone => match g_last_pixel g with None => [] | Some lp => [WCreateStatus lp] end
  end.

(** check_for_old: groups named <dataset>-<tool>_<digits> whose stored parameters match the query *)
Definition matching_groups (groups : list rgroup) (dset tool : str) (parms : list (nat * pyval)) : list rgroup :=
  let p := results_prefix dset tool in
  filter (fun g => starts_with p (g_name g) && all_digits (skipn (length p) (g_name g))
                   && check_for_matching_attrs (g_attrs g) parms) groups.

Definition duplicates N gs := filter (fun g => match classify N g with Duplicate => true | _ => false end) gs.
Definition partials N gs := filter (fun g => match classify N g with Partial => true | _ => false end) gs.

Inductive decision := Return (n : str) | Resume (n : str) | Fresh.

(** compute(override): groups are in h5py key order; "[-1]" picks the last *)
Definition decide (N : nat) (groups : list rgroup) (dset tool : str) (parms : list (nat * pyval)) (override : bool) : decision :=
  let m := matching_groups groups dset tool parms in
  if override then Fresh
  else match rev (duplicates N m) with
       | g :: _ => Return (g_name g)
       | [] => match rev (partials N m) with
               | g :: _ => Resume (g_name g)
               | [] => Fresh
               end
       end.
