From Coq Require Import List Arith Lia Bool ZArith.
Require Import V.Base.ListAux V.H5.Naming V.H5.NamingProof V.H5.Attrs V.Proc.Reuse.
Import ListNotations.

Lemma in_matching groups ds t parms g : In g (matching_groups groups ds t parms) ->
  In g groups /\ (exists s, all_digits s = true /\ g_name g = results_prefix ds t ++ s) /\
  check_for_matching_attrs (g_attrs g) parms = true.
Proof.
  unfold matching_groups. intros H. apply filter_In in H. destruct H as [Hin H].
  apply andb_true_iff in H. destruct H as [H Hp]. apply andb_true_iff in H. destruct H as [Hs Hd].
  split; [exact Hin|]. split; [|exact Hp].
  exists (skipn (length (results_prefix ds t)) (g_name g)). split; [exact Hd| apply starts_with_split, Hs].
Qed.

Lemma rev_head_in {A} (l : list A) x r : rev l = x :: r -> In x l.
Proof. intros H. apply in_rev. rewrite H. now left. Qed.

Lemma in_duplicates N gs g : In g (duplicates N gs) <-> In g gs /\ classify N g = Duplicate.
Proof.
  unfold duplicates. rewrite filter_In. split; intros [H1 H2]; (split; [exact H1|]).
  - destruct (classify N g); try discriminate; reflexivity.
  - now rewrite H2.
Qed.

Lemma in_partials N gs g : In g (partials N gs) <-> In g gs /\ classify N g = Partial.
Proof.
  unfold partials. rewrite filter_In. split; intros [H1 H2]; (split; [exact H1|]).
  - destruct (classify N g); try discriminate; reflexivity.
  - now rewrite H2.
Qed.

(** a group is returned without computing only if it is named for this very dataset and tool, its stored
    parameters match the request, and its progress record says complete *)
Theorem reuse_sound N groups ds t parms n : decide N groups ds t parms false = Return n ->
  exists g, In g groups /\ g_name g = n /\
    (exists s, all_digits s = true /\ g_name g = results_prefix ds t ++ s) /\
    check_for_matching_attrs (g_attrs g) parms = true /\ classify N g = Duplicate.
Proof.
  unfold decide. destruct (rev (duplicates N (matching_groups groups ds t parms))) as [|g r] eqn:E.
  - destruct (rev (partials N (matching_groups groups ds t parms))); discriminate.
  - intros [= <-]. apply rev_head_in in E. apply in_duplicates in E. destruct E as [Hm Hc].
    destruct (in_matching _ _ _ _ _ Hm) as (H1 & H2 & H3). exists g. auto.
Qed.

(** resumption: only when no complete result exists, and then in the last matching incomplete group *)
Theorem resume_last_partial N groups ds t parms n : decide N groups ds t parms false = Resume n ->
  duplicates N (matching_groups groups ds t parms) = [] /\
  exists g pre, partials N (matching_groups groups ds t parms) = pre ++ [g] /\ g_name g = n /\
    In g groups /\ (exists s, all_digits s = true /\ g_name g = results_prefix ds t ++ s) /\
    check_for_matching_attrs (g_attrs g) parms = true /\ classify N g = Partial.
Proof.
  unfold decide. destruct (rev (duplicates N (matching_groups groups ds t parms))) as [|g0 r0] eqn:E0; [|discriminate].
  destruct (rev (partials N (matching_groups groups ds t parms))) as [|g r] eqn:E; [discriminate|].
  intros [= <-]. split.
  - apply (f_equal (@rev rgroup)) in E0. now rewrite rev_involutive in E0.
  - exists g, (rev r). split; [apply (f_equal (@rev rgroup)) in E; rewrite rev_involutive in E; exact E|].
    apply rev_head_in in E. apply in_partials in E. destruct E as [Hm Hc].
    destruct (in_matching _ _ _ _ _ Hm) as (H1 & H2 & H3). auto.
Qed.

Theorem fresh_otherwise N groups ds t parms :
  decide N groups ds t parms false = Fresh <->
  duplicates N (matching_groups groups ds t parms) = [] /\ partials N (matching_groups groups ds t parms) = [].
Proof.
  unfold decide. split.
  - destruct (rev (duplicates N (matching_groups groups ds t parms))) as [|g0 r0] eqn:E0; [|discriminate].
    destruct (rev (partials N (matching_groups groups ds t parms))) as [|g r] eqn:E; [|discriminate].
    intros _. split; [apply (f_equal (@rev rgroup)) in E0 | apply (f_equal (@rev rgroup)) in E]; now rewrite rev_involutive in *.
  - intros [-> ->]. reflexivity.
Qed.

(** what "complete" means for the record *)
Lemma all_marked (vals : list nat) : forallb (fun v => negb (Nat.ltb 1 v)) vals = true -> length vals <= sum_nat vals ->
  Forall (fun v => v = 1) vals.
Proof.
  unfold sum_nat.
  assert (H : forall l acc, forallb (fun v => negb (Nat.ltb 1 v)) l = true -> fold_left Nat.add l acc <= acc + length l /\
              (acc + length l <= fold_left Nat.add l acc -> Forall (fun v => v = 1) l)).
  { induction l as [|v l IH]; intros acc Hf; simpl in *; [split; [lia|constructor]|].
    apply andb_true_iff in Hf. destruct Hf as [Hv Hf]. apply negb_true_iff, Nat.ltb_ge in Hv.
    destruct (IH (acc + v) Hf) as [Hle Hall]. split; [lia|]. intros Hge.
    assert (v = 1) by lia. subst. constructor; [reflexivity| apply Hall; lia]. }
  intros Hf Hs. apply (H vals 0 Hf). simpl. exact Hs.
Qed.

Theorem duplicate_is_complete N g : classify N g = Duplicate ->
  match g_status g with
  | StDset len_ok dtype_ok vals => len_ok = true /\ dtype_ok = true /\ (length vals = N -> Forall (fun v => v = 1) vals)
  | StNone => exists lp, g_last_pixel g = Some lp /\ (Z.of_nat N <= lp)%Z
  | StNotDataset => False
  end.
Proof.
  unfold classify. destruct (g_status g) as [| |len_ok dtype_ok vals].
  - destruct (g_last_pixel g) as [lp|]; [|discriminate]. destruct (Z.ltb_spec lp (Z.of_nat N)); [discriminate|]. intros _. eauto.
  - discriminate.
  - destruct len_ok, dtype_ok; simpl; try discriminate.
    destruct (existsb (fun v => Nat.ltb 1 v) vals) eqn:Ex; [discriminate|].
    destruct (Nat.ltb_spec (sum_nat vals) N); [discriminate|]. intros _. split; [reflexivity|]. split; [reflexivity|].
    intros Hl. apply all_marked; [|lia].
    apply forallb_forall. intros v Hv. apply negb_true_iff.
    destruct (Nat.ltb 1 v) eqn:Ev; [|reflexivity]. exfalso.
    assert (existsb (fun v => Nat.ltb 1 v) vals = true) by (apply existsb_exists; eauto). congruence.
Qed.

(** malformed or missing records are neither returned nor resumed *)
Theorem malformed_ignored N g :
  (g_status g = StNotDataset \/ (exists d vals, g_status g = StDset false d vals) \/ (exists l vals, g_status g = StDset l false vals) \/
   (exists l d vals, g_status g = StDset l d vals /\ existsb (fun v => Nat.ltb 1 v) vals = true) \/
   (g_status g = StNone /\ g_last_pixel g = None)) -> classify N g = Ignored.
Proof.
  unfold classify. intros [H|[(d & vals & H)|[(l & vals & H)|[(l & d & vals & H & Hv)|[H1 H2]]]]]; rewrite ?H, ?H1, ?H2; try reflexivity.
  - destruct l; reflexivity.
  - destruct l, d; simpl; try reflexivity. now rewrite Hv.
Qed.

(** the constructor writes only into legacy groups (open finding: it does so even when a fresh computation is forced) *)
Theorem ctor_frame_except_legacy N g : g_status g <> StNone -> ctor_writes N g = [].
Proof.
  unfold ctor_writes. destruct (g_status g) as [| |l d vals]; [congruence|reflexivity|].
  intros _. destruct (negb l || negb d); [reflexivity|]. destruct (existsb _ vals); reflexivity.
Qed.

Theorem ctor_frame_refuted : exists N g, ctor_writes N g <> [].
Proof. exists 4, (mkG [] [] StNone (Some 2%Z)). discriminate. Qed.
