(** Crash consistency of compute(): the run as a list of file-modifying events over a volatile and a durable copy
    of the results group; every prefix (crash point) leaves a state in which a mark implies a stored result. *)
From Coq Require Import List Arith Lia Bool ZArith.
Require Import V.Base.ListAux V.Gen.Gen_Jobs V.Proc.Jobs V.Proc.Compute.
Import ListNotations.

Section Crash.
  Context {R : Type} (f : nat -> R).       (* f p : the map function applied to row p *)

  Record store := mkS { s_status : list nat; s_results : list (option R) }.
  Record fstate := mkF { vol : store; dur : store }.     (* open file vs bytes as of the last flush *)

  Inductive ev :=
  | EWrite (ps : list nat)      (* _write_results_chunk: results of the batch *)
  | EFlush                      (* file.flush() *)
  | EMark (ps : list nat).      (* status[slice] = 1 *)

  Definition step (st : fstate) (e : ev) : fstate :=
    match e with
    | EWrite ps => mkF (mkS (s_status (vol st)) (Compute.store f (s_results (vol st)) ps)) (dur st)
    | EFlush => mkF (vol st) (vol st)
    | EMark ps => mkF (mkS (mark (s_status (vol st)) ps) (s_results (vol st))) (dur st)
    end.

  Definition exec (evs : list ev) (st : fstate) : fstate := fold_left step evs st.

  (** maximal runs of consecutive positions: integers_to_slices of an ascending batch *)
  Fixpoint runs_from (cur : list nat) (l : list nat) : list (list nat) :=
    match l with
    | [] => match cur with [] => [] | _ => [rev cur] end
    | x :: r => match cur with
                | [] => runs_from [x] r
                | y :: _ => if Nat.eqb x (S y) then runs_from (x :: cur) r else rev cur :: runs_from [x] r
                end
    end.
  Definition runs (b : list nat) : list (list nat) := runs_from [] b.

  (** one iteration of the loop: write the batch, flush, mark it slice by slice *)
  Definition batch_events (b : list nat) : list ev := EWrite b :: EFlush :: map EMark (runs b).
  Definition trace (batches : list (list nat)) : list ev := concat (map batch_events batches).

  Inductive mode := Graceful | Kill.
  Definition survive (m : mode) (st : fstate) : store := match m with Graceful => vol st | Kill => dur st end.

  (** the invariant: a position marked complete holds its final result *)
  Definition Inv (s : store) : Prop :=
    length (s_results s) = length (s_status s) /\
    forall p, p < length (s_status s) -> nth p (s_status s) 0 = 1 -> nth p (s_results s) None = Some (f p).

  (** ghost set W: positions whose final result is stored in the volatile copy *)
  Definition K (st : fstate) (W : list nat) : Prop :=
    Inv (vol st) /\ Inv (dur st) /\ (forall p, In p W -> p < length (s_status (vol st)) -> nth p (s_results (vol st)) None = Some (f p)).

  Inductive valid : list nat -> list ev -> Prop :=
  | v_nil W : valid W []
  | v_write W ps evs : valid (ps ++ W) evs -> valid W (EWrite ps :: evs)
  | v_flush W evs : valid W evs -> valid W (EFlush :: evs)
  | v_mark W ps evs : incl ps W -> valid W evs -> valid W (EMark ps :: evs).

  Lemma valid_weaken W W' evs : incl W W' -> valid W evs -> valid W' evs.
  Proof.
    intros Hi Hv. revert W' Hi. induction Hv; intros W' Hi; constructor; auto.
    - apply IHHv. intros x Hx. apply in_app_or in Hx. apply in_or_app. destruct Hx; [now left| right; auto].
    - intros x Hx. auto.
  Qed.

  Lemma step_K st W e W' : K st W ->
    match e with EWrite ps => W' = ps ++ W | EFlush => W' = W | EMark ps => incl ps W /\ W' = W end ->
    K (step st e) W'.
  Proof.
    intros (Iv & Id & Hw) He. pose proof Iv as [Lv Iv']. destruct e as [ps| |ps]; simpl.
    - subst W'. split; [|split; [exact Id|]].
      + split; simpl; [rewrite store_length; exact Lv|].
        intros p Hp Hs. rewrite nth_store by lia. destruct (existsb (Nat.eqb p) ps); [reflexivity| apply Iv'; assumption].
      + simpl. intros p Hin Hp. rewrite nth_store by lia. destruct (existsb (Nat.eqb p) ps) eqn:E; [reflexivity|].
        apply in_app_or in Hin. destruct Hin as [Hin|Hin]; [apply existsb_eqb_in in Hin; congruence| apply Hw; assumption].
    - subst W'. split; [exact Iv|split; [exact Iv|exact Hw]].
    - destruct He as [Hi ->]. split; [|split; [exact Id|]].
      + split; simpl; [rewrite mark_length; exact Lv|]. rewrite mark_length.
        intros p Hp Hs. rewrite nth_mark in Hs by exact Hp. destruct (existsb (Nat.eqb p) ps) eqn:E.
        * apply existsb_eqb_in in E. apply Hw; [apply Hi, E| exact Hp].
        * apply Iv'; assumption.
      + simpl. rewrite mark_length. intros p Hin Hp. apply Hw; assumption.
  Qed.

  (** every prefix of a valid event list leaves both copies consistent *)
  Theorem prefixes_consistent evs : forall st W, K st W -> valid W evs ->
    forall i, Inv (vol (exec (firstn i evs) st)) /\ Inv (dur (exec (firstn i evs) st)).
  Proof.
    induction evs as [|e evs IH]; intros st W HK Hv i.
    - rewrite firstn_nil. simpl. destruct HK as (H1 & H2 & _). auto.
    - destruct i as [|i]; [simpl; destruct HK as (H1 & H2 & _); auto|].
      simpl. inversion Hv as [|? ps ? Hv'|? ? Hv'|? ps ? Hincl Hv']; subst.
      + eapply IH; [apply (step_K st W (EWrite ps) (ps ++ W) HK eq_refl)| assumption].
      + eapply IH; [apply (step_K st W EFlush W HK eq_refl)| assumption].
      + eapply IH; [apply (step_K st W (EMark ps) W HK (conj Hincl eq_refl))| assumption].
  Qed.

  (** the slices of a batch only contain positions of the batch *)
  Lemma runs_from_incl : forall l cur x r, In r (runs_from cur l) -> In x r -> In x cur \/ In x l.
  Proof.
    induction l as [|y l IH]; intros cur x r Hr Hx; simpl in Hr.
    - destruct cur; [contradiction|]. destruct Hr as [<-|[]]. left. now apply in_rev.
    - destruct cur as [|c cur].
      + destruct (IH [y] x r Hr Hx) as [[<-|[]]|H]; [right; now left| right; now right].
      + destruct (Nat.eqb y (S c)).
        * destruct (IH (y :: c :: cur) x r Hr Hx) as [[<-|H]|H]; [right; now left| left; exact H| right; now right].
        * destruct Hr as [<-|Hr]; [left; now apply in_rev|].
          destruct (IH [y] x r Hr Hx) as [[<-|[]]|H]; [right; now left| right; now right].
  Qed.

  Lemma trace_valid batches : forall W, valid W (trace batches).
  Proof.
    induction batches as [|b bs IH]; intros W; [constructor|].
    unfold trace. simpl. constructor. constructor.
    fold (trace bs).
    assert (H : forall rs, (forall r, In r rs -> incl r (b ++ W)) -> valid (b ++ W) (map EMark rs ++ trace bs)).
    { induction rs as [|r rs IHr]; intros Hin; simpl; [apply IH|].
      constructor; [apply Hin; now left| apply IHr; intros r' Hr'; apply Hin; now right]. }
    apply H. intros r Hr x Hx. apply in_or_app. left.
    destruct (runs_from_incl b [] x r Hr Hx) as [[]|Hb]. exact Hb.
  Qed.

  (** C04 core: whatever the batches, wherever the crash and however the process dies, no position is marked
      complete in the surviving state unless its final result is stored there *)
  Theorem crash_consistent (batches : list (list nat)) (s0 : store) (i : nat) (m : mode) :
    Inv s0 -> Inv (survive m (exec (firstn i (trace batches)) (mkF s0 s0))).
  Proof.
    intros H0.
    destruct (prefixes_consistent (trace batches) (mkF s0 s0) [] ltac:(repeat split; try apply H0; intros p []) (trace_valid batches []) i) as [Hv Hd].
    destruct m; assumption.
  Qed.

  (** a kill keeps exactly what the last flush saw: every mark written before it survives *)
  Theorem kill_keeps_last_flush evs st : survive Kill (exec (evs ++ [EFlush]) st) = survive Graceful (exec (evs ++ [EFlush]) st).
  Proof. unfold exec. rewrite fold_left_app. reflexivity. Qed.

  Lemma step_dur_not_flush st e : e <> EFlush -> dur (step st e) = dur st.
  Proof. destruct e; simpl; congruence. Qed.

  Theorem kill_durability evs1 evs2 st : ~ In EFlush evs2 ->
    survive Kill (exec (evs1 ++ EFlush :: evs2) st) = vol (exec (evs1 ++ [EFlush]) st).
  Proof.
    intros Hn. unfold exec. rewrite !fold_left_app. simpl.
    generalize (step (fold_left step evs1 st) EFlush). intros s.
    assert (H : forall evs s', ~ In EFlush evs -> dur (fold_left step evs s') = dur s').
    { induction evs as [|e evs IH]; intros s' Hni; [reflexivity|]. simpl.
      rewrite IH by (intro Hx; apply Hni; now right). apply step_dur_not_flush. intro E. apply Hni. now left. }
    rewrite H by exact Hn. reflexivity.
  Qed.
End Crash.

(** * Resumption after any number of interruptions *)
Section Resume.
  Context {R : Type} (f : nat -> R).

  Definition bits (s : @store R) : Prop := Forall (fun v => v = 0 \/ v = 1) (s_status s).

  Lemma mark_bits st ps : Forall (fun v => v = 0 \/ v = 1) st -> Forall (fun v => v = 0 \/ v = 1) (mark st ps).
  Proof.
    intros H. apply Forall_forall. intros v Hv. apply (In_nth _ _ 0) in Hv. destruct Hv as (p & Hp & <-).
    rewrite mark_length in Hp. rewrite nth_mark by exact Hp.
    destruct (existsb (Nat.eqb p) ps); [now right|]. rewrite Forall_forall in H. apply H, nth_In, Hp.
  Qed.

  Lemma exec_bits evs : forall st, bits (vol st) -> bits (dur st) -> bits (vol (exec f evs st)) /\ bits (dur (exec f evs st)).
  Proof.
    induction evs as [|e evs IH]; intros st Hv Hd; [auto|]. simpl. apply IH; destruct e; simpl; auto.
    unfold bits. simpl. apply mark_bits, Hv.
  Qed.

  (** one interrupted attempt: batches from the pending list with the attempt's batch limit, crash after i events *)
  Definition attempt (s : @store R) (maxpos : Z) (i : nat) (m : mode) : @store R :=
    match rank_batches (pending (s_status s)) 1 0 maxpos with
    | Some bs => survive m (exec f (firstn i (trace bs)) (mkF s s))
    | None => s
    end.

  Lemma attempt_inv s maxpos i m : Inv f s -> bits s -> Inv f (attempt s maxpos i m) /\ bits (attempt s maxpos i m).
  Proof.
    intros HI Hb. unfold attempt. destruct (rank_batches _ 1 0 maxpos) as [bs|]; [|auto].
    split; [apply crash_consistent; exact HI|].
    destruct (exec_bits (firstn i (trace bs)) (mkF s s) Hb Hb) as [H1 H2]. destruct m; assumption.
  Qed.

  Fixpoint attempts (s : @store R) (cs : list (Z * nat * mode)) : @store R :=
    match cs with
    | [] => s
    | (maxpos, i, m) :: r => attempts (attempt s maxpos i m) r
    end.

  (** after ANY sequence of interruptions, the final uninterrupted compute() recomputes exactly the positions still
      unmarked, leaves the others untouched, and ends with every position marked and holding f(row) *)
  Theorem resume_equals_uninterrupted (s0 : @store R) (cs : list (Z * nat * mode)) (maxpos : Z) :
    Inv f s0 -> bits s0 -> (0 < maxpos)%Z ->
    let s := attempts s0 cs in
    exists st, compute f (s_status s) (s_results s) maxpos = Some st /\
      st_log st = pending (s_status s) /\
      length (st_status st) = length (s_status s) /\
      (forall p, p < length (s_status s) -> nth p (st_status st) 0 = 1 /\ nth p (st_results st) None = Some (f p)).
  Proof.
    intros HI Hb Hm. cbv zeta.
    assert (HI' : Inv f (attempts s0 cs) /\ bits (attempts s0 cs)).
    { revert s0 HI Hb. induction cs as [|[[mp i] m] cs IH]; intros s0 HI Hb; simpl; [auto|].
      destruct (attempt_inv s0 mp i m HI Hb). apply IH; assumption. }
    destruct HI' as [[Hlen HI'] Hb']. set (s := attempts s0 cs) in *.
    destruct (compute_spec f (s_status s) (s_results s) maxpos Hm Hlen) as (st & Hc & Hlog & _ & _ & Hls & _ & Hn).
    exists st. split; [exact Hc|]. split; [exact Hlog|]. split; [exact Hls|].
    intros p Hp. destruct (Hn p Hp) as [H1 H2]. rewrite H1, H2.
    unfold bits in Hb'. rewrite Forall_forall in Hb'. specialize (Hb' _ (nth_In _ 0 Hp)).
    destruct Hb' as [E|E]; rewrite E; simpl; [auto|]. split; [reflexivity| apply HI'; assumption].
  Qed.
End Resume.
