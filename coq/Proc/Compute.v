(** compute(): pending list, batches of positions, marking -- executable model
    on top of the generated cursor arithmetic (Gen_Jobs) and Proc/Jobs.v. *)
From Coq Require Import ZArith List Lia Bool Arith.
Require Import V.Gen.Gen_Jobs V.Base.ListAux V.Proc.Jobs.
Import ListNotations.

(** positions whose completion status is 0, ascending: np.where(status == 0)[0] *)
Definition pending (status : list nat) : list nat := where_eq status 0.

Definition window (jobs : list nat) (w : Z * Z) : list nat := slice jobs (Z.to_nat (fst w)) (Z.to_nat (snd w)).

(** Batches (lists of positions) processed by rank [r] of [R] with batch limit [maxpos]. *)
Definition rank_batches (jobs : list nat) (R r : nat) (maxpos : Z) : option (list (list nat)) :=
  let n := Z.of_nat (length jobs) in
  let s := assign_start (Z.of_nat r) (Z.of_nat R) n maxpos in
  let e := assign_rank_end (Z.of_nat r) (Z.of_nat R) n maxpos in
  let e0 := assign_end (Z.of_nat r) (Z.of_nat R) n maxpos in
  match batches (S (length jobs)) s e maxpos e0 with
  | Some bs => Some (map (window jobs) bs)
  | None => None
  end.

(** status[p] := 1 for p in ps *)
Definition mark (status : list nat) (ps : list nat) : list nat :=
  mapi (fun i s => if existsb (Nat.eqb i) ps then 1 else s) status.

(** results[p] := f p for p in ps   (f p stands for: map function applied to row p) *)
Definition store {R} (f : nat -> R) (res : list (option R)) (ps : list nat) : list (option R) :=
  mapi (fun i old => if existsb (Nat.eqb i) ps then Some (f i) else old) res.

Record cstate (R : Type) := mkC {
  st_status : list nat;            (* completed_positions *)
  st_results : list (option R);    (* results dataset, None = never written *)
  st_log : list nat;               (* positions the map function was called on, in call order *)
  st_batches : list (list nat) }.  (* successive values of _get_pixels_in_current_batch() *)
Arguments mkC {R}. Arguments st_status {R}. Arguments st_results {R}. Arguments st_log {R}. Arguments st_batches {R}.

(** one iteration of the while loop: unit computation, write results, (flush,) mark the batch *)
Definition process_batch {R} (f : nat -> R) (st : cstate R) (b : list nat) : cstate R :=
  mkC (mark (st_status st) b) (store f (st_results st) b) (st_log st ++ b) (st_batches st ++ [b]).

Definition compute {R} (f : nat -> R) (status : list nat) (old : list (option R)) (maxpos : Z) : option (cstate R) :=
  match rank_batches (pending status) 1 0 maxpos with
  | Some bs => Some (fold_left (process_batch f) bs (mkC status old [] []))
  | None => None
  end.

(** * Facts *)

Lemma in_pending status p : In p (pending status) <-> p < length status /\ nth p status 0 = 0.
Proof.
  unfold pending, where_eq. rewrite in_where_from. split.
  - intros (k & -> & Hk & Hn). simpl. auto.
  - intros [Hk Hn]. exists p. auto.
Qed.

Lemma concat_windows jobs : forall bs a b, chain bs a b -> (0 <= a)%Z ->
  Forall (fun w => (fst w < snd w)%Z) bs -> (b <= Z.of_nat (length jobs))%Z ->
  concat (map (window jobs) bs) = slice jobs (Z.to_nat a) (Z.to_nat b).
Proof.
  induction bs as [|[lo hi] r IH]; intros a b Hc Ha Hf Hb; simpl in *.
  - subst. now rewrite slice_nil.
  - destruct Hc as [-> Hc]. inversion Hf as [|? ? Hlt Hf']; subst. simpl in Hlt.
    destruct (chain_bounds r _ _ Hc Hf') as [Hle _].
    rewrite (IH hi b Hc ltac:(lia) Hf' Hb). unfold window. simpl.
    apply slice_app; lia.
Qed.

Lemma mark_length st ps : length (mark st ps) = length st.
Proof. apply mapi_length. Qed.
Lemma store_length {R} (f : nat -> R) res ps : length (store f res ps) = length res.
Proof. apply mapi_length. Qed.

Lemma nth_mark st ps p : p < length st -> nth p (mark st ps) 0 = if existsb (Nat.eqb p) ps then 1 else nth p st 0.
Proof. intros H. unfold mark. now rewrite (nth_mapi _ st p 0 0 H). Qed.

Lemma nth_store {R} (f : nat -> R) res ps p : p < length res ->
  nth p (store f res ps) None = if existsb (Nat.eqb p) ps then Some (f p) else nth p res None.
Proof. intros H. unfold store. now rewrite (nth_mapi _ res p None None H). Qed.

Lemma fold_batches {R} (f : nat -> R) : forall bs st,
  let st' := fold_left (process_batch f) bs st in
  st_log st' = st_log st ++ concat bs /\ st_batches st' = st_batches st ++ bs /\
  length (st_status st') = length (st_status st) /\ length (st_results st') = length (st_results st) /\
  (forall p, p < length (st_status st) ->
     nth p (st_status st') 0 = if existsb (Nat.eqb p) (concat bs) then 1 else nth p (st_status st) 0) /\
  (forall p, p < length (st_results st) ->
     nth p (st_results st') None = if existsb (Nat.eqb p) (concat bs) then Some (f p) else nth p (st_results st) None).
Proof.
  induction bs as [|b bs IH]; intros st; simpl.
  - rewrite !app_nil_r. repeat split; auto.
  - destruct (IH (process_batch f st b)) as (Hl & Hb & Hs & Hr & Hns & Hnr). simpl in *.
    rewrite Hl, Hb, Hs, Hr, mark_length, store_length, <- !app_assoc. simpl.
    split; [reflexivity|]. split; [reflexivity|]. split; [reflexivity|]. split; [reflexivity|]. split.
    + intros p Hp. rewrite Hns by (rewrite mark_length; exact Hp). rewrite nth_mark by exact Hp.
      rewrite existsb_app. destruct (existsb (Nat.eqb p) b), (existsb (Nat.eqb p) (concat bs)); reflexivity.
    + intros p Hp. rewrite Hnr by (rewrite store_length; exact Hp). rewrite nth_store by exact Hp.
      rewrite existsb_app. destruct (existsb (Nat.eqb p) b), (existsb (Nat.eqb p) (concat bs)); reflexivity.
Qed.

Lemma single_rank_range n m : assign_start 0 1 n m = 0%Z /\ assign_rank_end 0 1 n m = n.
Proof. unfold assign_start, assign_rank_end. split; [lia|]. destruct (Z.eqb_spec 0 (1 - 1)); lia. Qed.

(** The headline fact about compute() for one process (mpi_size = 1). *)
Theorem compute_spec {R} (f : nat -> R) status old maxpos :
  (0 < maxpos)%Z -> length old = length status ->
  exists st, compute f status old maxpos = Some st /\
    st_log st = pending status /\
    concat (st_batches st) = pending status /\
    Forall (fun b => b <> [] /\ (Z.of_nat (length b) <= maxpos)%Z) (st_batches st) /\
    length (st_status st) = length status /\ length (st_results st) = length status /\
    (forall p, p < length status ->
       nth p (st_status st) 0 = (if Nat.eqb (nth p status 0) 0 then 1 else nth p status 0) /\
       nth p (st_results st) None = (if Nat.eqb (nth p status 0) 0 then Some (f p) else nth p old None)).
Proof.
  intros Hm Hlen. unfold compute, rank_batches.
  set (jobs := pending status). set (n := Z.of_nat (length jobs)).
  change (Z.of_nat 0) with 0%Z. change (Z.of_nat 1) with 1%Z.
  destruct (single_rank_range n maxpos) as [-> ->].
  destruct (batches_spec maxpos n Hm (S (length jobs)) 0 (assign_end 0 1 n maxpos) ltac:(lia) ltac:(lia))
    as (bs & -> & Hc & Hall).
  assert (Hlt : Forall (fun w => (fst w < snd w)%Z) bs).
  { eapply Forall_impl; [|exact Hall]. simpl. intros; lia. }
  assert (Hcat : concat (map (window jobs) bs) = jobs).
  { rewrite (concat_windows jobs bs 0 n Hc ltac:(lia) Hlt ltac:(lia)). unfold n. rewrite Nat2Z.id. apply slice_all. }
  eexists. split; [reflexivity|].
  destruct (fold_batches f (map (window jobs) bs) (mkC status old [] [])) as (Hl & Hb & Hs & Hr & Hns & Hnr).
  simpl in *. rewrite Hcat in Hns, Hnr. rewrite Hl, Hb, Hs, Hr, Hcat. simpl.
  split; [reflexivity|]. split; [reflexivity|]. split; [|split; [reflexivity|split; [exact Hlen|]]].
  - destruct (chain_bounds bs _ _ Hc Hlt) as [_ Hbd].
    rewrite Forall_forall in *. intros b Hb'. apply in_map_iff in Hb'. destruct Hb' as (w & <- & Hw).
    specialize (Hall w Hw). specialize (Hbd w Hw). unfold window.
    assert (length (slice jobs (Z.to_nat (fst w)) (Z.to_nat (snd w))) = Z.to_nat (snd w) - Z.to_nat (fst w)) as Hlen'.
    { apply slice_length. unfold n in *. lia. }
    split; [intro E; rewrite E in Hlen'; simpl in Hlen'; lia| rewrite Hlen'; lia].
  - intros p Hp. rewrite (Hns p Hp), (Hnr p ltac:(lia)).
    destruct (existsb (Nat.eqb p) jobs) eqn:E.
    + apply existsb_eqb_in in E. apply in_pending in E. destruct E as [_ E]. rewrite E. simpl. auto.
    + destruct (Nat.eqb_spec (nth p status 0) 0) as [E0|E0]; [|auto].
      exfalso. assert (In p jobs) as Hin by (apply in_pending; auto).
      apply existsb_eqb_in in Hin. congruence.
Qed.

(** Without progress (batch limit 0) and something pending, the model has no terminating run. *)
Lemma compute_zero_limit {R} (f : nat -> R) status old : pending status <> [] -> compute f status old 0 = None.
Proof.
  intros Hp. unfold compute, rank_batches.
  change (Z.of_nat 0) with 0%Z. change (Z.of_nat 1) with 1%Z.
  destruct (single_rank_range (Z.of_nat (length (pending status))) 0) as [-> ->].
  rewrite batches_zero_limit_stuck; [reflexivity|].
  destruct (pending status); [congruence| simpl; lia].
Qed.
