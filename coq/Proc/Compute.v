(** compute(): pending list, batches of positions, marking -- executable model
    on top of the generated cursor arithmetic (Gen_Jobs) and Proc/Jobs.v. *)
From Coq Require Import ZArith List Lia Bool Arith.
Require Import V.Gen.Gen_Jobs V.Base.ListAux V.Proc.Jobs.
Import ListNotations.

(** positions whose completion status is 0, ascending: np.where(status == 0)[0] *)
Fixpoint pending_from (status : list nat) (i : nat) : list nat :=
  match status with
  | [] => []
  | s :: r => if Nat.eqb s 0 then i :: pending_from r (S i) else pending_from r (S i)
  end.
Definition pending (status : list nat) : list nat := pending_from status 0.

(** Batches (lists of positions) processed by rank [r] of [R] with batch limit [maxpos]. *)
Definition rank_batches (jobs : list nat) (R r : nat) (maxpos : Z) : option (list (list nat)) :=
  let n := Z.of_nat (length jobs) in
  let s := assign_start (Z.of_nat r) (Z.of_nat R) n maxpos in
  let e := assign_rank_end (Z.of_nat r) (Z.of_nat R) n maxpos in
  let e0 := assign_end (Z.of_nat r) (Z.of_nat R) n maxpos in
  match batches (S (length jobs)) s e maxpos e0 with
  | Some bs => Some (map (fun w => slice jobs (Z.to_nat (fst w)) (Z.to_nat (snd w))) bs)
  | None => None
  end.

(** status[p] := 1 for p in ps *)
Definition mark (status : list nat) (ps : list nat) : list nat :=
  mapi (fun i s => if existsb (Nat.eqb i) ps then 1 else s) status.
