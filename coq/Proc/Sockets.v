(** comp_utils.group_ranks_by_socket: ranks sharing a processor name are grouped
    under the lowest-numbered rank of that name.  Names are abstracted to
    natural-number identifiers (the harness numbers the distinct strings). *)
From Coq Require Import List Arith Lia Bool.
Require Import V.Base.ListAux.
Import ListNotations.

(** master_ranks[temp] = v *)
Definition assign_at (m : list nat) (idxs : list nat) (v : nat) : list nat :=
  mapi (fun i old => if existsb (Nat.eqb i) idxs then v else old) m.

(** the loop over np.unique(recvbuf) (the order in which the distinct names are visited is irrelevant) *)
Definition socket_step (names : list nat) (m : list nat) (item : nat) : list nat :=
  let temp := where_eq names item in assign_at m temp (hd 0 temp).
Definition group_ranks_by_socket (names : list nat) : list nat :=
  fold_left (socket_step names) (nodup Nat.eq_dec names) (repeat 0 (length names)).

(** specification: index of the first occurrence *)
Fixpoint find_first (names : list nat) (x i : nat) : option nat :=
  match names with
  | [] => None
  | y :: r => if Nat.eqb y x then Some i else find_first r x (S i)
  end.

Lemma hd_where_from names x i : hd_error (where_from names x i) = find_first names x i.
Proof.
  revert i; induction names as [|y r IH]; intros i; simpl; [reflexivity|].
  destruct (Nat.eqb y x); [reflexivity| apply IH].
Qed.

Lemma find_first_spec names x : forall i q, find_first names x i = Some q ->
  exists k, q = i + k /\ k < length names /\ nth k names 0 = x /\ forall k', k' < k -> nth k' names 0 <> x.
Proof.
  induction names as [|y r IH]; intros i q; simpl; [discriminate|].
  destruct (Nat.eqb_spec y x) as [E|E].
  - intros [= <-]. exists 0. split; [lia|]. split; [lia|]. split; [exact E|]. intros k' Hk'. lia.
  - intros H. destruct (IH _ _ H) as (k & -> & Hk & Hn & Hmin). exists (S k).
    split; [lia|]. split; [lia|]. split; [exact Hn|].
    intros k' Hk'. destruct k' as [|k']; [exact E| apply Hmin; lia].
Qed.

Lemma find_first_some names x i k : k < length names -> nth k names 0 = x -> exists q, find_first names x i = Some q.
Proof.
  revert i k; induction names as [|y r IH]; intros i k Hk Hn; simpl in *; [lia|].
  destruct (Nat.eqb_spec y x); [eauto|]. destruct k as [|k]; [congruence|]. apply (IH (S i) k); [lia|exact Hn].
Qed.

Lemma socket_step_nth names m item r : length m = length names -> r < length names ->
  nth r (socket_step names m item) 0 =
    if Nat.eqb (nth r names 0) item then hd 0 (where_eq names item) else nth r m 0.
Proof.
  intros Hl Hr. unfold socket_step, assign_at.
  rewrite (nth_mapi _ m r 0 0) by lia.
  destruct (existsb (Nat.eqb r) (where_eq names item)) eqn:E.
  - apply existsb_eqb_in in E. apply in_where_from in E. destruct E as (k & Hk & _ & Hn). simpl in Hk. subst k.
    rewrite Hn. now rewrite Nat.eqb_refl.
  - destruct (Nat.eqb_spec (nth r names 0) item) as [E'|E']; [|reflexivity].
    exfalso. assert (In r (where_eq names item)) as Hin.
    { apply in_where_from. exists r. split; [reflexivity|]. split; [lia|exact E']. }
    apply existsb_eqb_in in Hin. congruence.
Qed.

Lemma socket_step_length names m item : length (socket_step names m item) = length m.
Proof. unfold socket_step, assign_at. apply mapi_length. Qed.

Lemma fold_sockets names : forall items m0, length m0 = length names ->
  let m := fold_left (socket_step names) items m0 in
  length m = length names /\
  forall r, r < length names ->
    nth r m 0 = if existsb (Nat.eqb (nth r names 0)) items then hd 0 (where_eq names (nth r names 0)) else nth r m0 0.
Proof.
  induction items as [|a items IH]; intros m0 Hl; simpl.
  - split; [exact Hl| reflexivity].
  - destruct (IH (socket_step names m0 a)) as [Hlen Hnth]; [rewrite socket_step_length; exact Hl|].
    split; [exact Hlen|]. intros r Hr. rewrite (Hnth r Hr).
    rewrite socket_step_nth by assumption.
    destruct (Nat.eqb_spec (nth r names 0) a) as [E|E]; simpl.
    + subst a. destruct (existsb _ items); reflexivity.
    + reflexivity.
Qed.

Theorem socket_master_min : forall names r, r < length names ->
  let m := nth r (group_ranks_by_socket names) 0 in
  m <= r /\ nth m names 0 = nth r names 0 /\ forall q, q < m -> nth q names 0 <> nth r names 0.
Proof.
  intros names r Hr. cbv zeta. unfold group_ranks_by_socket.
  destruct (fold_sockets names (nodup Nat.eq_dec names) (repeat 0 (length names)) (repeat_length _ _)) as [_ H].
  rewrite (H r Hr). clear H.
  assert (In (nth r names 0) (nodup Nat.eq_dec names)) as Hin by (apply nodup_In, nth_In; exact Hr).
  apply existsb_eqb_in in Hin. rewrite Hin.
  destruct (find_first_some names (nth r names 0) 0 r Hr eq_refl) as (q & Hq).
  pose proof (hd_where_from names (nth r names 0) 0) as Hh. rewrite Hq in Hh.
  unfold where_eq. destruct (where_from names (nth r names 0) 0) as [|h t] eqn:Ew; [discriminate|].
  simpl in Hh. injection Hh as ->. simpl.
  destruct (find_first_spec _ _ _ _ Hq) as (k & -> & Hk & Hn & Hmin). simpl.
  split; [|split; [exact Hn| exact Hmin]].
  destruct (le_lt_dec k r) as [Hle|Hlt]; [exact Hle|]. exfalso. exact (Hmin r Hlt eq_refl).
Qed.
