(** Rank ranges and batch windows of Process (process.py), on top of the
    definitions *generated from the source* in Gen/Gen_Jobs.v. *)
From Coq Require Import ZArith List Lia Bool Arith.
Require Import V.Gen.Gen_Jobs V.Base.ListAux.
Import ListNotations.
Local Open Scope Z_scope.

(** Range of the pending list owned by rank [r] of [R] when [n] positions are pending.
    (The batch limit does not influence the range; any value may be passed.) *)
Definition rank_start (n R r : Z) : Z := assign_start r R n 0.
Definition rank_end (n R r : Z) : Z := assign_rank_end r R n 0.

Ltac zb :=
  repeat match goal with
  | |- context [?a <? ?b] => destruct (Z.ltb_spec a b)
  | |- context [?a <=? ?b] => destruct (Z.leb_spec a b)
  | |- context [?a =? ?b] => destruct (Z.eqb_spec a b)
  | H : context [?a <? ?b] |- _ => destruct (Z.ltb_spec a b)
  | H : context [?a <=? ?b] |- _ => destruct (Z.leb_spec a b)
  | H : context [?a =? ?b] |- _ => destruct (Z.eqb_spec a b)
  end.

Lemma div_facts n R : 0 < R -> 0 <= n -> 0 <= n / R /\ R * (n / R) <= n.
Proof.
  intros HR Hn. split; [apply Z.div_pos; lia|]. apply Z.mul_div_le; lia.
Qed.

Lemma rank_maxpos_irrelevant n R r m m' :
  assign_start r R n m = assign_start r R n m' /\ assign_rank_end r R n m = assign_rank_end r R n m'.
Proof. unfold assign_start, assign_rank_end. split; reflexivity. Qed.

Lemma ranges_first n R : rank_start n R 0 = 0.
Proof. unfold rank_start, assign_start. lia. Qed.

Lemma ranges_last n R : rank_end n R (R - 1) = n.
Proof. unfold rank_end, assign_rank_end. zb; lia. Qed.

Lemma ranges_contiguous n R r : 0 <= r -> r < R - 1 -> rank_end n R r = rank_start n R (r + 1).
Proof. intros H0 H1. unfold rank_end, rank_start, assign_rank_end, assign_start. zb; lia. Qed.

Lemma ranges_ordered n R r : 0 < R -> 0 <= n -> 0 <= r < R ->
  0 <= rank_start n R r <= rank_end n R r /\ rank_end n R r <= n.
Proof.
  intros HR Hn Hr. destruct (div_facts n R HR Hn) as [Hq Hm].
  unfold rank_start, rank_end, assign_start, assign_rank_end.
  remember (n / R) as q. zb; nia.
Qed.

(** The same facts over [nat] windows of an actual pending list. *)
Definition nstart (n R r : nat) : nat := Z.to_nat (rank_start (Z.of_nat n) (Z.of_nat R) (Z.of_nat r)).
Definition nend (n R r : nat) : nat := Z.to_nat (rank_end (Z.of_nat n) (Z.of_nat R) (Z.of_nat r)).

Definition rank_jobs {A} (jobs : list A) (R r : nat) : list A :=
  slice jobs (nstart (length jobs) R r) (nend (length jobs) R r).

Lemma nranges n R r : (0 < R)%nat -> (r < R)%nat ->
  (nstart n R r <= nend n R r)%nat /\ (nend n R r <= n)%nat /\
  (S r < R -> nend n R r = nstart n R (S r))%nat /\
  (S r = R -> nend n R r = n)%nat /\ nstart n R 0 = 0%nat.
Proof.
  intros HR Hr. unfold nstart, nend.
  pose proof (ranges_ordered (Z.of_nat n) (Z.of_nat R) (Z.of_nat r)) as H.
  destruct H as [[H1 H2] H3]; try lia.
  split; [lia|]. split; [lia|]. split; [|split].
  - intros Hs. rewrite ranges_contiguous by lia. do 2 f_equal. lia.
  - intros Hs. replace (Z.of_nat r) with (Z.of_nat R - 1) by lia. rewrite ranges_last. lia.
  - replace (Z.of_nat 0) with 0 by reflexivity. rewrite (ranges_first (Z.of_nat n) (Z.of_nat R)). reflexivity.
Qed.

(** Concatenating the windows of ranks [0 .. k) gives the prefix up to the end of rank k-1. *)
Lemma ranks_concat_prefix {A} (jobs : list A) R k : (0 < R)%nat -> (k <= R)%nat -> (0 < k)%nat ->
  concat (map (rank_jobs jobs R) (seq 0 k)) = slice jobs 0 (nend (length jobs) R (k - 1)).
Proof.
  intros HR. induction k as [|k IH]; intros Hk Hk0; [lia|].
  rewrite seq_S, map_app, concat_app. simpl. rewrite app_nil_r.
  replace (k - 0)%nat with k by lia.
  destruct k as [|k].
  - simpl. unfold rank_jobs.
    destruct (nranges (length jobs) R 0 HR ltac:(lia)) as (_ & _ & _ & _ & H0). now rewrite H0.
  - rewrite IH by lia. replace (S k - 1)%nat with k by lia.
    unfold rank_jobs.
    destruct (nranges (length jobs) R k HR ltac:(lia)) as (Ha & Hb & Hc & _ & _).
    destruct (nranges (length jobs) R (S k) HR ltac:(lia)) as (Ha' & Hb' & _ & _ & _).
    rewrite <- Hc by lia. apply slice_app; lia.
Qed.

(** Windows of all ranks, in rank order, concatenate to exactly the pending list:
    no gap, no overlap, also when there are fewer positions than ranks. *)
Theorem ranks_partition_jobs {A} (jobs : list A) (R : nat) : (0 < R)%nat ->
  concat (map (rank_jobs jobs R) (seq 0 R)) = jobs.
Proof.
  intros HR. rewrite ranks_concat_prefix by lia.
  destruct (nranges (length jobs) R (R - 1) HR ltac:(lia)) as (_ & _ & _ & Hl & _).
  rewrite Hl by lia. apply slice_all.
Qed.

(** * Batches inside one rank's range: the cursor loop of compute()/_read_data_chunk *)

Fixpoint batches (fuel : nat) (start rank_end maxpos end0 : Z) : option (list (Z * Z)) :=
  match fuel with
  | O => None                                         (* loop still running: no result *)
  | S f =>
      if chunk_has_data start rank_end maxpos end0 then
        let lo := chunk_lo start rank_end maxpos end0 in
        let hi := chunk_hi start rank_end maxpos end0 in
        let e := chunk_end start rank_end maxpos end0 in
        (* compute(): ... self.__start_pos = self.__end_pos ... self._read_data_chunk() *)
        match batches f e rank_end maxpos e with
        | Some bs => Some ((lo, hi) :: bs)
        | None => None
        end
      else Some []
  end.

(** [chain bs a b]: the windows are consecutive, start at [a] and stop at [b]. *)
Fixpoint chain (bs : list (Z * Z)) (a b : Z) : Prop :=
  match bs with
  | [] => a = b
  | (lo, hi) :: r => lo = a /\ chain r hi b
  end.

Lemma batches_spec maxpos rank_end : 0 < maxpos ->
  forall fuel start e0, start <= rank_end -> (Z.to_nat (rank_end - start) < fuel)%nat ->
  exists bs, batches fuel start rank_end maxpos e0 = Some bs /\ chain bs start rank_end /\
             Forall (fun b => fst b < snd b <= fst b + maxpos /\ snd b <= rank_end) bs.
Proof.
  intros Hm. induction fuel as [|f IH]; intros start e0 Hs Hf; [lia|].
  simpl. unfold chunk_has_data, chunk_lo, chunk_hi, chunk_end.
  destruct (Z.ltb_spec start rank_end) as [Hlt|Hge].
  - set (e := Z.min rank_end (start + maxpos)).
    assert (He : start < e <= rank_end) by (unfold e; lia).
    destruct (IH e e ltac:(lia) ltac:(lia)) as (bs & Hb & Hc & Hall).
    rewrite Hb. eexists; split; [reflexivity|]. split.
    + simpl. auto.
    + constructor; [simpl; unfold e; lia| exact Hall].
  - exists []. repeat split; simpl; auto; lia.
Qed.

(** With a batch limit of 0 the cursor never advances: the loop can only be left
    through an exception (what the real code does: see C15). *)
Lemma batches_zero_limit_stuck rank_end : forall fuel start e0, start < rank_end ->
  batches fuel start rank_end 0 e0 = None.
Proof.
  induction fuel as [|f IH]; intros start e0 Hs; [reflexivity|].
  simpl. unfold chunk_has_data, chunk_lo, chunk_hi, chunk_end.
  destruct (Z.ltb_spec start rank_end) as [Hlt|Hge]; [|lia].
  replace (Z.min rank_end (start + 0)) with start by lia.
  now rewrite IH.
Qed.

Lemma chain_bounds bs : forall a b, chain bs a b ->
  Forall (fun w => fst w < snd w) bs -> a <= b /\ Forall (fun w => a <= fst w /\ snd w <= b) bs.
Proof.
  induction bs as [|[lo hi] r IH]; intros a b Hc Hf; simpl in *.
  - subst. split; [lia|constructor].
  - destruct Hc as [-> Hc]. inversion Hf as [|? ? Hlt Hf']; subst. simpl in Hlt.
    destruct (IH _ _ Hc Hf') as [Hle Hall]. split; [lia|].
    constructor; [simpl; lia|]. eapply Forall_impl; [|exact Hall]. simpl. intros; lia.
Qed.
